/* Stub model of std::vector<uint32_t> bits_ / std::vector<uint64_t> bit_counts_ in the bit coders: fixed capacity chosen by the harness,
 * push_back appends, clear() sets size 0, resize(n) keeps a prefix and zero-fills, assign(n, v) fills. Reallocation is not modelled. */
#ifndef VERIF_VEC_BITS_H
#define VERIF_VEC_BITS_H
#include <stddef.h>
#include <stdint.h>
struct vec_w32 { uint32_t *data; size_t size; size_t cap; };
struct vec_w64 { uint64_t *data; size_t size; size_t cap; };
static inline void vec_w32_push_back(struct vec_w32 *v, uint32_t x) {
#ifdef VERIF_CBMC
  __CPROVER_assert(v->size < v->cap, "stub: vector model capacity");
#endif
  v->data[v->size++] = x;
}
static inline void vec_w32_clear(struct vec_w32 *v) { v->size = 0; }
#endif
