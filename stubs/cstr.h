/* Stub model of std::string as (pointer, size, capacity) for the metadata name codec.
 * resize(n) is a contract-only stub: size()==n afterwards, storage valid for n bytes (capacity fixed by the caller's precondition). */
#ifndef VERIF_CSTR_H
#define VERIF_CSTR_H
#include <stddef.h>
struct cstr { char *data; size_t size; size_t cap; };
#endif
