/* Stub models of std::vector<uint32_t> (lut_table_) and std::vector<rans_sym> (probability_table_) in RAnsDecoder<P>.
 * resize() is a body-less function WITH A CONTRACT (assumed libstdc++ behaviour: size()==n afterwards, storage valid for n
 * elements); the model has a capacity chosen by the caller's precondition instead of reallocating. */
#ifndef VERIF_VEC_ANS_H
#define VERIF_VEC_ANS_H
#include <stddef.h>
#include <stdint.h>
struct rans_sym;
/* struct vec_u32 (lut_table_) is emitted into the generated ans_types.h: its element type is copied from the source on every run */
struct vec_u32;
struct vec_sym { struct rans_sym *data; size_t size; size_t cap; };
#endif
