/* Stub model of std::vector<char> for sliced code (rule R-vec, DESIGN.md §3.1).
 * ASSUMED (not proved) libstdc++ behaviour: size()==number of elements; resize(n) keeps the first
 * min(size,n) elements and value-initialises (zeroes) new ones; insert(end(),a,b) appends b-a bytes.
 * The model has a fixed capacity chosen by the harness: reallocation (and the pointer invalidation it
 * causes) is NOT modelled; exceeding the capacity is an assertion failure of the harness, not of draco. */
#ifndef VERIF_VEC_H
#define VERIF_VEC_H
#include <stddef.h>
#include <stdint.h>
struct vec_char { char *data; size_t size; size_t cap; };
static inline size_t vec_char_size(const struct vec_char *v) { return v->size; }
static inline char *vec_char_data(struct vec_char *v) { return v->data; }
static inline void vec_char_resize(struct vec_char *v, size_t n) {
#ifdef VERIF_CBMC
  __CPROVER_assert(n <= v->cap, "stub: vector model capacity");
#endif
  for (size_t i = v->size; i < n; ++i) v->data[i] = 0;
  v->size = n;
}
#ifdef VERIF_CBMC
extern size_t ghost_len, ghost_len2;
static inline void vec_char_append(struct vec_char *v, const uint8_t *src, size_t n)
__CPROVER_requires(n <= v->cap - v->size && v->size <= v->cap)
__CPROVER_ensures(v->size == __CPROVER_old(v->size) + n)
__CPROVER_ensures(ghost_len >= n || v->data[__CPROVER_old(v->size) + ghost_len] == (char)src[ghost_len])
__CPROVER_ensures(ghost_len2 >= __CPROVER_old(v->size) || ghost_len2 >= v->cap || v->data[ghost_len2] == __CPROVER_old(v->data[ghost_len2 < v->cap ? ghost_len2 : 0]))
__CPROVER_assigns(v->size, __CPROVER_object_whole(v->data));
#endif
static inline void vec_char_append(struct vec_char *v, const uint8_t *src, size_t n) {
#ifdef VERIF_CBMC
  __CPROVER_assert(v->size + n <= v->cap, "stub: vector model capacity");
#endif
  for (size_t i = 0; i < n; ++i) v->data[v->size + i] = (char)src[i];
  v->size += n;
}
#endif
