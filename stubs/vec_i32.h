/* Stub model of std::vector<int32_t> used as pre-sized scratch storage (clamped_value_): only operator[] and data() are used
 * by the sliced code; resize happens in Init() (not under contract) and is represented by the `size` field chosen by the harness. */
#ifndef VERIF_VEC_I32_H
#define VERIF_VEC_I32_H
#include <stddef.h>
#include <stdint.h>
struct vec_i32 { int32_t *data; size_t size; };
#endif
