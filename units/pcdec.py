"""Unit 'pcdec' (C05, C02, C06): PointCloudDecoder::DecodeHeader and PointCloudDecoder::Decode (the entry point every mesh / point-cloud decode
goes through): header layout, version acceptance, the bitstream version handed to every later reader, order of the decoding stages."""
PC = 'src/draco/compression/point_cloud/point_cloud_decoder.cc'
CS = 'src/draco/compression/config/compression_shared.h'
DEPS = ['core']
STATUS = [(r'Status\(Status::(\w+),\s*(?:k\w+|"[^"]*")\)', r'STATUS_\1', 0), (r'\bOkStatus\(\)', 'STATUS_OK', 0),
          (r'DRACO_RETURN_IF_ERROR\(((?:[^()]|\([^()]*\))*)\)', r'{ const int local_status_ = (\1); if (local_status_ != STATUS_OK) return local_status_; }', 0)]
functions = [
    {'name': 'PCD_DecodeHeader', 'file': PC, 'anchor': r'Status PointCloudDecoder::DecodeHeader\(DecoderBuffer \*buffer,\s*DracoHeader \*out_header\)\s*\{',
     'sig': 'int PCD_DecodeHeader(struct DecoderBuffer *buffer, struct DracoHeader *out_header)',
     'subst': STATUS + [(r'constexpr char kIoErrorMsg\[\] = "[^"]*";', '', 0), (r'buffer->Decode\(out_header->draco_string, 5\)', 'DecoderBuffer_DecodeBytes(buffer, out_header->draco_string, 5)', 1),
                        (r'buffer->Decode\(&\(out_header->(version_major|version_minor|encoder_type|encoder_method)\)\)', r'DecoderBuffer_Decode_u8(buffer, &(out_header->\1))', 4),
                        (r'buffer->Decode\(&\(out_header->flags\)\)', 'DecoderBuffer_Decode_u16(buffer, &(out_header->flags))', 1)]},
    {'name': 'PCD_Decode', 'file': PC, 'anchor': r'Status PointCloudDecoder::Decode\(const DecoderOptions &options,\s*DecoderBuffer \*in_buffer,\s*PointCloud \*out_point_cloud\)\s*\{',
     'sig': 'int PCD_Decode(struct PCD *self, const void *options, struct DecoderBuffer *in_buffer, void *out_point_cloud)',
     'subst': STATUS + [(r'options_ = &options;', 'self->options_ = options;', 1), (r'DracoHeader header;', 'struct DracoHeader header;', 1), (r'\bDecodeHeader\(', 'PCD_DecodeHeader(', 1),
                        (r'\bGetGeometryType\(\)', 'PCD_GetGeometryType(self)', 1), (r'buffer_->set_bitstream_version\(', 'DecoderBuffer_set_bitstream_version(self->buffer_, ', 1), (r'(\w+)->bitstream_version\(\)', r'\1->bitstream_version_', 0),
                        (r'(?<![\w>.])bitstream_version\(\)', 'PCD_bitstream_version(self)', 1), (r'(?<![\w>.])DecodeMetadata\(\)', 'PCD_DecodeMetadata(self)', 1),
                        (r'(?<![\w>.])InitializeDecoder\(\)', 'PCD_InitializeDecoder(self)', 1), (r'(?<![\w>.])DecodeGeometryData\(\)', 'PCD_DecodeGeometryData(self)', 1),
                        (r'(?<![\w>.])DecodePointAttributes\(\)', 'PCD_DecodePointAttributes(self)', 1)],
     'members': ['buffer_', 'point_cloud_', 'version_major_', 'version_minor_']},
]
def K(name): return {'const': name, 'file': CS, 'regex': r'static constexpr uint8_t %s = (\d+);' % name}
UNIT = {'name': 'pcdec', 'structs': [
            {'struct': 'DracoHeader', 'file': CS, 'fields': [('int8_t draco_string[5]', r'int8_t draco_string\[5\];'), ('uint8_t version_major', r'uint8_t version_major;'), ('uint8_t version_minor', r'uint8_t version_minor;'),
                                                             ('uint8_t encoder_type', r'uint8_t encoder_type;'), ('uint8_t encoder_method', r'uint8_t encoder_method;'), ('uint16_t flags', r'uint16_t flags;')]},
            {'struct': 'PCD', 'file': 'src/draco/compression/point_cloud/point_cloud_decoder.h', 'fields': [
                ('void *point_cloud_', r'PointCloud \*point_cloud_;'), ('struct DecoderBuffer *buffer_', r'DecoderBuffer \*buffer_;'), ('uint8_t version_major_', r'uint8_t version_major_;'),
                ('uint8_t version_minor_', r'uint8_t version_minor_;'), ('const void *options_', r'const DecoderOptions \*options_;'),
                ('uint8_t ghost_geometry_type', r'virtual EncodedGeometryType GetGeometryType\(\) const'), ('int ghost_stage', r'uint8_t version_minor_;'), ('int ghost_metadata_decoded', r'uint8_t version_minor_;')]}],
        'consts': [K('kDracoPointCloudBitstreamVersionMajor'), K('kDracoPointCloudBitstreamVersionMinor'), K('kDracoMeshBitstreamVersionMajor'), K('kDracoMeshBitstreamVersionMinor'),
                   {'const': 'METADATA_FLAG_MASK', 'file': CS, 'regex': r'#define METADATA_FLAG_MASK (\w+)'},
                   {'const': 'POINT_CLOUD', 'file': CS, 'regex': r'POINT_CLOUD = (\d+),\s*TRIANGULAR_MESH,'}, {'const': 'TRIANGULAR_MESH', 'file': CS, 'regex': r'POINT_CLOUD = (\d+),\s*TRIANGULAR_MESH,', 'post': '+1'}],
        'functions': functions,
        'pre_text': []}
# TRIANGULAR_MESH follows POINT_CLOUD in the enum: value + 1 (the slicer copies the matched value; the increment is written in contracts/pcdec.c)
UNIT['consts'] = [c for c in UNIT['consts'] if c['const'] != 'TRIANGULAR_MESH']
SRC = 'contracts/pcdec.c'
DEFS = ['-DDRACO_BACKWARDS_COMPATIBILITY_SUPPORTED']
JOBS = []
def J(id, entry, props, enforce=None, replace=(), loops=False, unwind=None, unwind_reason=None, **kw):
    j = {'id': 'pcdec.' + id, 'src': SRC, 'entry': entry, 'enforce': enforce, 'replace': list(replace), 'loops': loops,
         'unwind': unwind, 'unwind_reason': unwind_reason, 'props': props, 'defines': DEFS}
    j.update(kw); JOBS.append(j); return j
COSIM = False
ASSUMPTIONS = ['PointCloudDecoder::Decode: the virtual stages (GetGeometryType, DecodeMetadata, InitializeDecoder, DecodeGeometryData, DecodePointAttributes) are contract stubs that record the order in which they run and REQUIRE the reader to carry the bitstream version of the header; Status objects are modelled by their code',
               'the Status enum values are copied into contracts/pcdec.c (STATUS_*); only their distinctness is used']
TYPES_PRELUDE = ['core_types.h']
J('DecodeHeader', 'h_pcd_header', ['C05', 'C02'], unwind=12, unwind_reason='5-byte memcpy of the magic in the vector-free reader model; no input-length loop; unwinding assertions on')
J('Decode', 'h_pcd_decode', ['C05', 'C02', 'C06'], native_api={'src': 'native/api_version_gate.cc', 'args': []}, unwind=12, unwind_reason='5-byte memcpy of the magic; no input-length loop; unwinding assertions on')
J('fmt.supported_versions', 'h_fmt_supported_versions', ['C05'])
