"""Unit 'bitcoders' (C17, C02, C18, C06): DirectBitEncoder/Decoder, RAnsBitEncoder/Decoder per-operation functions."""
B = 'src/draco/compression/bit_coders/'
DEPS = ['core', 'ans']
DEM = ['bits_', 'local_bits_', 'num_local_bits_']
DDM = ['bits_', 'pos_', 'num_used_bits_']
REM = ['bit_counts_', 'bits_', 'local_bits_', 'num_local_bits_']
RDM = ['ans_decoder_', 'prob_zero_']
PB = (r'\bbits_\.push_back\(', 'vec_w32_push_back(&self->bits_, ', 1)
functions = [
    {'name': 'DirectBitEncoder_EncodeBit', 'file': B + 'direct_bit_encoder.h', 'anchor': r'void EncodeBit\(bool bit\)\s*\{', 'sig': 'void DirectBitEncoder_EncodeBit(struct DirectBitEncoder *self, bool bit)',
     'subst': [PB], 'members': DEM},
    {'name': 'DirectBitEncoder_EncodeLeastSignificantBits32', 'file': B + 'direct_bit_encoder.h', 'anchor': r'void EncodeLeastSignificantBits32\(int nbits, uint32_t value\)\s*\{',
     'sig': 'void DirectBitEncoder_EncodeLeastSignificantBits32(struct DirectBitEncoder *self, int nbits, uint32_t value)', 'subst': [(PB[0], PB[1], 2)], 'members': DEM, 'drop_dcheck': False},
    {'name': 'DirectBitEncoder_Clear', 'file': B + 'direct_bit_encoder.cc', 'anchor': r'void DirectBitEncoder::Clear\(\)\s*\{', 'sig': 'void DirectBitEncoder_Clear(struct DirectBitEncoder *self)',
     'subst': [(r'\bbits_\.clear\(\)', 'vec_w32_clear(&self->bits_)', 1)], 'members': DEM},
    {'name': 'DirectBitEncoder_EndEncoding', 'file': B + 'direct_bit_encoder.cc', 'anchor': r'void DirectBitEncoder::EndEncoding\(EncoderBuffer \*target_buffer\)\s*\{',
     'sig': 'void DirectBitEncoder_EndEncoding(struct DirectBitEncoder *self, struct EncoderBuffer *target_buffer)',
     'subst': [PB, (r'\bbits_\.size\(\)', 'self->bits_.size', 1), (r'target_buffer->Encode\(size_in_byte\)', 'EncoderBuffer_Encode_u32(target_buffer, &size_in_byte)', 1),
               (r'target_buffer->Encode\(bits_\.data\(\), size_in_byte\)', 'EncoderBuffer_EncodeBytes(target_buffer, self->bits_.data, size_in_byte)', 1), (r'\bClear\(\)', 'DirectBitEncoder_Clear(self)', 1)], 'members': DEM},
    {'name': 'DirectBitDecoder_DecodeNextBit', 'file': B + 'direct_bit_decoder.h', 'anchor': r'bool DecodeNextBit\(\)\s*\{', 'sig': 'bool DirectBitDecoder_DecodeNextBit(struct DirectBitDecoder *self)',
     'subst': [(r'\bbits_\.end\(\)', '(self->bits_.data + self->bits_.size)', 1)], 'members': DDM},
    {'name': 'DirectBitDecoder_DecodeLeastSignificantBits32', 'file': B + 'direct_bit_decoder.h', 'anchor': r'bool DecodeLeastSignificantBits32\(int nbits, uint32_t \*value\)\s*\{',
     'sig': 'bool DirectBitDecoder_DecodeLeastSignificantBits32(struct DirectBitDecoder *self, int nbits, uint32_t *value)',
     'subst': [(r'\bbits_\.end\(\)', '(self->bits_.data + self->bits_.size)', 0)], 'members': DDM},
    {'name': 'DirectBitDecoder_Clear', 'file': B + 'direct_bit_decoder.cc', 'anchor': r'void DirectBitDecoder::Clear\(\)\s*\{', 'sig': 'void DirectBitDecoder_Clear(struct DirectBitDecoder *self)',
     'subst': [(r'\bbits_\.clear\(\)', 'vec_w32_clear(&self->bits_)', 1), (r'\bbits_\.end\(\)', '(self->bits_.data + self->bits_.size)', 1)], 'members': DDM},
    {'name': 'DirectBitDecoder_StartDecoding', 'file': B + 'direct_bit_decoder.cc', 'anchor': r'bool DirectBitDecoder::StartDecoding\(DecoderBuffer \*source_buffer\)\s*\{',
     'sig': 'bool DirectBitDecoder_StartDecoding(struct DirectBitDecoder *self, struct DecoderBuffer *source_buffer)',
     'subst': [(r'\bClear\(\)', 'DirectBitDecoder_Clear(self)', 1), (r'source_buffer->Decode\(&size_in_bytes\)', 'DecoderBuffer_Decode_u32(source_buffer, &size_in_bytes)', 1),
               (r'source_buffer->remaining_size\(\)', 'DecoderBuffer_remaining_size(source_buffer)', 1), (r'\bbits_\.resize\(num_32bit_elements\)', 'vec_w32_resize_alloc(self, num_32bit_elements)', 1),
               (r'source_buffer->Decode\(bits_\.data\(\), size_in_bytes\)', 'DecoderBuffer_DecodeBytes(source_buffer, self->bits_.data, size_in_bytes)', 1), (r'\bbits_\.begin\(\)', 'self->bits_.data', 1)], 'members': DDM},
    {'name': 'RAnsBitEncoder_EncodeBit', 'file': B + 'rans_bit_encoder.cc', 'anchor': r'void RAnsBitEncoder::EncodeBit\(bool bit\)\s*\{', 'sig': 'void RAnsBitEncoder_EncodeBit(struct RAnsBitEncoder *self, bool bit)',
     'subst': [PB, (r'\bbit_counts_\[', 'self->bit_counts_.data[', 2)], 'members': REM[1:]},
    {'name': 'RAnsBitEncoder_EncodeLeastSignificantBits32', 'file': B + 'rans_bit_encoder.cc', 'anchor': r'void RAnsBitEncoder::EncodeLeastSignificantBits32\(int nbits, uint32_t value\)\s*\{',
     'sig': 'void RAnsBitEncoder_EncodeLeastSignificantBits32(struct RAnsBitEncoder *self, int nbits, uint32_t value)',
     'subst': [(PB[0], PB[1], 2), (r'\bbit_counts_\[', 'self->bit_counts_.data[', 2)], 'members': REM[1:], 'drop_dcheck': False},
    {'name': 'RAnsBitDecoder_DecodeNextBit', 'file': B + 'rans_bit_decoder.cc', 'anchor': r'bool RAnsBitDecoder::DecodeNextBit\(\)\s*\{', 'sig': 'bool RAnsBitDecoder_DecodeNextBit(struct RAnsBitDecoder *self)',
     'subst': [(r'\brabs_read\(', 'rabs_desc_read(', 1)], 'members': RDM},
    {'name': 'RAnsBitDecoder_DecodeLeastSignificantBits32', 'file': B + 'rans_bit_decoder.cc', 'anchor': r'void RAnsBitDecoder::DecodeLeastSignificantBits32\(int nbits, uint32_t \*value\)\s*\{',
     'sig': 'void RAnsBitDecoder_DecodeLeastSignificantBits32(struct RAnsBitDecoder *self, int nbits, uint32_t *value)',
     'subst': [(r'\bDecodeNextBit\(\)', 'RAnsBitDecoder_DecodeNextBit(self)', 1)], 'members': RDM, 'drop_dcheck': False,
     'loops': {0: '__CPROVER_assigns(nbits, result, self->ans_decoder_.state, self->ans_decoder_.buf_offset)\n'
                  '__CPROVER_loop_invariant(0 <= nbits && nbits <= __CPROVER_loop_entry(nbits))\n'
                  '__CPROVER_loop_invariant(self->ans_decoder_.state < ANS_TOP && 0 <= self->ans_decoder_.buf_offset && self->ans_decoder_.buf_offset <= __CPROVER_loop_entry(self->ans_decoder_.buf_offset))\n'
                  '__CPROVER_decreases(nbits)'}},
    {'name': 'RAnsBitDecoder_Clear', 'file': B + 'rans_bit_decoder.cc', 'anchor': r'void RAnsBitDecoder::Clear\(\)\s*\{', 'sig': 'void RAnsBitDecoder_Clear(struct RAnsBitDecoder *self)',
     'subst': [(r'ans_read_end\(&ans_decoder_\)', 'ans_read_end(&self->ans_decoder_)', 1)]},
    {'name': 'RAnsBitDecoder_StartDecoding', 'file': B + 'rans_bit_decoder.cc', 'anchor': r'bool RAnsBitDecoder::StartDecoding\(DecoderBuffer \*source_buffer\)\s*\{',
     'sig': 'bool RAnsBitDecoder_StartDecoding(struct RAnsBitDecoder *self, struct DecoderBuffer *source_buffer)',
     'subst': [(r'\bClear\(\)', 'RAnsBitDecoder_Clear(self)', 1), (r'source_buffer->Decode\(&prob_zero_\)', 'DecoderBuffer_Decode_u8(source_buffer, &self->prob_zero_)', 1),
               (r'source_buffer->bitstream_version\(\)', 'source_buffer->bitstream_version_', 1), (r'source_buffer->Decode\(&size_in_bytes\)', 'DecoderBuffer_Decode_u32(source_buffer, &size_in_bytes)', 1),
               (r'DecodeVarint\(&size_in_bytes, source_buffer\)', 'DecodeVarint_u32(&size_in_bytes, source_buffer)', 1), (r'source_buffer->remaining_size\(\)', 'DecoderBuffer_remaining_size(source_buffer)', 1),
               (r'ans_read_init\(&ans_decoder_,', 'ans_read_init(&self->ans_decoder_,', 1), (r'source_buffer->data_head\(\)', 'DecoderBuffer_data_head(source_buffer)', 1),
               (r'source_buffer->Advance\(size_in_bytes\)', 'DecoderBuffer_Advance(source_buffer, size_in_bytes)', 1)]},
]
UNIT = {'name': 'bitcoders', 'structs': [
    {'struct': 'DirectBitEncoder', 'file': B + 'direct_bit_encoder.h', 'fields': [('struct vec_w32 bits_', r'std::vector<uint32_t> bits_;'), ('uint32_t local_bits_', r'uint32_t local_bits_;'), ('uint32_t num_local_bits_', r'uint32_t num_local_bits_;')]},
    {'struct': 'DirectBitDecoder', 'file': B + 'direct_bit_decoder.h', 'fields': [('struct vec_w32 bits_', r'std::vector<uint32_t> bits_;'), ('const uint32_t *pos_', r'std::vector<uint32_t>::const_iterator pos_;'), ('uint32_t num_used_bits_', r'uint32_t num_used_bits_;'),
                                                                                 ('int64_t remaining_at_entry', r'uint32_t num_used_bits_;')]},
    {'struct': 'RAnsBitEncoder', 'file': B + 'rans_bit_encoder.h', 'fields': [('struct vec_w64 bit_counts_', r'std::vector<uint64_t> bit_counts_;'), ('struct vec_w32 bits_', r'std::vector<uint32_t> bits_;'), ('uint32_t local_bits_', r'uint32_t local_bits_;'), ('uint32_t num_local_bits_', r'uint32_t num_local_bits_;')]},
    {'struct': 'RAnsBitDecoder', 'file': B + 'rans_bit_decoder.h', 'fields': [('struct AnsDecoder ans_decoder_', r'AnsDecoder ans_decoder_;'), ('uint8_t prob_zero_', r'uint8_t prob_zero_;')]},
], 'consts': [], 'functions': functions, 'pre_text': []}
SRC = 'contracts/bitcoders.c'
DEFS = ['-DDRACO_BACKWARDS_COMPATIBILITY_SUPPORTED', '-DRANS_P=12']
JOBS = []
def J(id, entry, props, enforce=None, replace=(), loops=False, unwind=None, unwind_reason=None, **kw):
    j = {'id': 'bitcoders.' + id, 'src': SRC, 'entry': entry, 'enforce': enforce, 'replace': list(replace), 'loops': loops,
         'unwind': unwind, 'unwind_reason': unwind_reason, 'props': props, 'defines': DEFS}
    j.update(kw); JOBS.append(j); return j
TYPES_PRELUDE = ['vec_bits.h', 'vec_ans.h', 'core_types.h', 'ans_types.h']
COSIM = True
NATIVE_SOURCES = ['src/draco/compression/bit_coders/direct_bit_encoder.cc', 'src/draco/compression/bit_coders/direct_bit_decoder.cc', 'src/draco/compression/bit_coders/rans_bit_encoder.cc', 'src/draco/compression/bit_coders/rans_bit_decoder.cc']
NATIVE_DEFS = ['-DRANS_P=12']
NATIVE_SLICE_PRE = 'extern uint32_t ghost_rem, ghost_sym; extern int ghost_k;\n#define ANS_TOP (4096u * 256u)\n'

SHL1 = (r'arithmetic overflow on signed shl in 1 << ', 'C-vs-C++ difference: `1 << 31` (int) sets the sign bit; undefined in C11, defined in C++11 and later (CWG 1457). The shift-distance check stays enabled.')
J('direct.DecodeNextBit.contract', 'h_enf_DirectBitDecoder_DecodeNextBit', ['C17', 'C02'], enforce='DirectBitDecoder_DecodeNextBit', ignore=[SHL1])
J('direct.DecodeLeastSignificantBits32.contract', 'h_enf_DirectBitDecoder_DecodeLeastSignificantBits32', ['C17', 'C02'], enforce='DirectBitDecoder_DecodeLeastSignificantBits32')
J('direct.StartDecoding.contract', 'h_enf_DirectBitDecoder_StartDecoding', ['C17', 'C02', 'C18', 'C06'], enforce='DirectBitDecoder_StartDecoding',
  replace=['DecoderBuffer_Decode_u32', 'DecoderBuffer_remaining_size', 'vec_w32_resize_alloc', 'DecoderBuffer_DecodeBytes'])
J('rbit.DecodeNextBit.contract', 'h_enf_RAnsBitDecoder_DecodeNextBit', ['C17', 'C02'], enforce='RAnsBitDecoder_DecodeNextBit', replace=['rabs_desc_read'])
J('rbit.DecodeLeastSignificantBits32.contract', 'h_enf_RAnsBitDecoder_DecodeLeastSignificantBits32', ['C17', 'C02'], enforce='RAnsBitDecoder_DecodeLeastSignificantBits32',
  replace=['RAnsBitDecoder_DecodeNextBit'], loops=True)
J('rbit.StartDecoding.contract', 'h_enf_RAnsBitDecoder_StartDecoding', ['C17', 'C02', 'C18', 'C06'], enforce='RAnsBitDecoder_StartDecoding',
  replace=['DecoderBuffer_Decode_u8', 'DecoderBuffer_Decode_u32', 'DecodeVarint_u32', 'DecoderBuffer_remaining_size', 'DecoderBuffer_data_head', 'DecoderBuffer_Advance', 'ans_read_init', 'ans_read_end'])
J('direct.rt', 'h_direct_rt', ['C17'], ignore=[SHL1], unwind=34, unwind_reason='harness loops over <= 31 leading bits; vector-model copies of <= 16 bytes; unwinding assertions on', timeout=1500, cost=8)
J('rbit.pack', 'h_rbit_pack', ['C17'], ignore=[SHL1], solver='cadical', unwind=34, unwind_reason='harness loops over <= 32 bits; CountOneBits32 is loop-free; unwinding assertions on', timeout=1500, cost=8)
ASSUMPTIONS = ['std::vector<uint32_t> bits_ is modelled by stubs/vec_bits.h (fixed capacity push_back/clear) and, in DirectBitDecoder::StartDecoding, by a contract-only resize stub carrying the C18 bound',
               'std::vector<uint32_t>::const_iterator pos_ is modelled as a pointer into bits_',
               'RAnsBitEncoder::EndEncoding (double arithmetic for the probability, reverse-order loop over all bits) is NOT under contract; the per-bit inverse is ans.rabs.step',
               'AdaptiveRAnsBit, FoldedBit32 and SymbolBit coders are not under contract']
