"""Unit 'metatree' (C11, C18, C02): MetadataDecoder::DecodeMetadata(Metadata*) -- the explicit-stack traversal that rebuilds the metadata tree -- and
the sub-metadata part of MetadataEncoder::EncodeMetadata.  Names, entries and varints are TOKENS of a ghost stream here (their byte codecs are under
contract in unit meta); what is decided is the NESTING: every sub-metadata ends up under the parent the encoder wrote it under."""
MD = 'src/draco/metadata/metadata_decoder.cc'
DEPS = ['core']
functions = [
    {'name': 'MD_DecodeMetadata', 'file': MD, 'anchor': r'bool MetadataDecoder::DecodeMetadata\(Metadata \*metadata\)\s*\{',
     'sig': 'bool MD_DecodeMetadata(struct MDT *self, struct MetaNode *metadata)',
     'subst': [(r'struct MetadataTuple \{\s*Metadata \*parent_metadata;\s*Metadata \*decoded_metadata;\s*int level;\s*\};', '', 1),
               (r'std::vector<MetadataTuple> metadata_stack;', 'struct mstack metadata_stack; mstack_init(self, &metadata_stack);', 1),
               (r'metadata_stack\.push_back\(\s*\{((?:[^{}])*)\}\)', r'mstack_push(&metadata_stack, (struct MetadataTuple){\1})', 2),
               (r'!metadata_stack\.empty\(\)', '!mstack_empty(&metadata_stack)', 1), (r'const MetadataTuple mp = metadata_stack\.back\(\);', 'const struct MetadataTuple mp = mstack_back(&metadata_stack);', 1),
               (r'metadata_stack\.pop_back\(\);', 'mstack_pop(&metadata_stack);', 1), (r'metadata_stack\.size\(\)', 'mstack_size(&metadata_stack)', 0), (r'metadata_stack\.empty\(\)', 'mstack_empty(&metadata_stack)', 0),
               (r'metadata_stack\.(?:back|front)\(\)', 'mstack_back(&metadata_stack)', 0), (r'metadata_stack\[((?:[^\[\]])+)\]', r'mstack_at(&metadata_stack, \1)', 0), (r'(?<!struct )\bMetadataTuple\b', 'struct MetadataTuple', 0),
               (r'std::string sub_metadata_name;', 'uint32_t sub_metadata_name;', 1), (r'DecodeName\(&sub_metadata_name\)', 'MDT_DecodeName(self, &sub_metadata_name)', 1),
               (r'std::unique_ptr<Metadata> sub_metadata =\s*std::unique_ptr<Metadata>\(new Metadata\(\)\);', 'struct MetaNode *sub_metadata = MetaNode_new(self);', 1),
               (r'sub_metadata\.get\(\)', 'sub_metadata', 1),
               (r'mp\.parent_metadata->AddSubMetadata\(sub_metadata_name,\s*std::move\(sub_metadata\)\)', 'MetaNode_AddSubMetadata(mp.parent_metadata, sub_metadata_name, sub_metadata)', 1),
               (r'DecodeVarint\(&(\w+), buffer_\)', r'MDT_DecodeVarint(self, &\1)', 2), (r'DecodeEntry\(metadata\)', 'MDT_DecodeEntry(self, metadata)', 1),
               (r'buffer_->remaining_size\(\)', 'MDT_remaining_size(self)', 1)]},
]
UNIT = {'name': 'metatree', 'structs': [], 'consts': [], 'functions': functions, 'pre_text': []}
SRC = 'contracts/metatree.c'
DEFS = ['-DDRACO_BACKWARDS_COMPATIBILITY_SUPPORTED']
JOBS = []
def J(id, entry, props, enforce=None, replace=(), loops=False, unwind=None, unwind_reason=None, **kw):
    j = {'id': 'metatree.' + id, 'src': SRC, 'entry': entry, 'enforce': enforce, 'replace': list(replace), 'loops': loops,
         'unwind': unwind, 'unwind_reason': unwind_reason, 'props': props, 'defines': DEFS}
    j.update(kw); JOBS.append(j); return j
COSIM = False
ASSUMPTIONS = ['metatree: names, entries and varints are tokens of a ghost stream (MDT_DecodeName / MDT_DecodeEntry / MDT_DecodeVarint pop one token; their byte-level codecs are the contracts of unit meta and core); Metadata objects are ghost nodes that record the parent they are attached to; std::vector<MetadataTuple> is a fixed-capacity stack model',
               'the expected stream is produced in the harness from the tree in the order MetadataEncoder::EncodeMetadata writes it (entries, number of sub-metadata, then for every sub-metadata its name followed by its own block): the recursion itself is written in the harness, the loop bodies are the regions under contract in unit meta',
               'metatree.nesting is a bounded stand-in: trees of at most 4 nodes (every shape), at most 1 entry per node']
J('nesting', 'h_metatree_nesting', ['C11'], unwind=10, unwind_reason='bounded: trees with <= 4 nodes (all shapes), <= 1 entry per node; token stream <= 24 tokens; unwinding assertions on', timeout=2700, cost=9)
J('guards', 'h_metatree_guards', ['C18', 'C02', 'C11'], unwind=8, unwind_is_claim=True, unwind_reason='bounded: remaining input <= 5 tokens; every loop of the function must be bounded by the remaining input (that is the C18 claim), so an unwinding failure here is a violation; every declared count', timeout=900, cost=3)
