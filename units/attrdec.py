"""Unit 'attrdec' (C02, C03, C18): attribute value decoding above the leaf layer --
SequentialIntegerAttributeDecoder::DecodeIntegerValues (whole function; the object graph around it -- portable attribute, prediction scheme,
symbol decoder -- is a set of contract stubs)."""
A = 'src/draco/compression/attributes/'
DEPS = ['core']
AE = A + 'sequential_integer_attribute_encoder.cc'
functions = [
    {'name': 'SIAD_DecodeIntegerValues', 'file': A + 'sequential_integer_attribute_decoder.cc',
     'anchor': r'bool SequentialIntegerAttributeDecoder::DecodeIntegerValues\(\s*const std::vector<PointIndex> &point_ids, DecoderBuffer \*in_buffer\)\s*\{',
     'sig': 'bool SIAD_DecodeIntegerValues(struct SIAD *self, const struct vec_pid *point_ids, struct DecoderBuffer *in_buffer)',
     'subst': [(r'\bGetNumValueComponents\(\)', 'SIAD_GetNumValueComponents(self)', 1), (r'point_ids\.size\(\)', 'point_ids->size', 1), (r'point_ids\.data\(\)', 'point_ids->data', 1),
               (r'\bPreparePortableAttribute\(', 'SIAD_PreparePortableAttribute(self, ', 1), (r'\bGetPortableAttributeData\(\)', 'SIAD_GetPortableAttributeData(self)', 1),
               (r'in_buffer->Decode\(&(\w+)\)', r'DecoderBuffer_Decode_u8(in_buffer, &\1)', 2), (r'in_buffer->Decode\(', 'DecoderBuffer_DecodeBytes(in_buffer, ', 2),
               (r'in_buffer->remaining_size\(\)', 'DecoderBuffer_remaining_size(in_buffer)', 1), (r'portable_attribute\(\)->buffer\(\)->data_size\(\)', 'SIAD_portable_data_size(self)', 2),
               (r'DataTypeLength\(DT_INT32\)', '4', 1), (r'\bConvertSymbolsToSignedInts\(', 'ConvertSymbolsToSignedInts_inplace(', 1),
               (r'prediction_scheme_ == nullptr', 'self->prediction_scheme_ == NULL', 1), (r'!prediction_scheme_->AreCorrectionsPositive\(\)', '!PS_AreCorrectionsPositive(self->prediction_scheme_)', 1),
               (r'if \(prediction_scheme_\)', 'if (self->prediction_scheme_)', 1), (r'!prediction_scheme_->DecodePredictionData\(in_buffer\)', '!PS_DecodePredictionData(self->prediction_scheme_, in_buffer)', 1),
               (r'!prediction_scheme_->ComputeOriginalValues\(', '!PS_ComputeOriginalValues(self->prediction_scheme_, ', 1)],
     'loops': {0: '__CPROVER_assigns(i, in_buffer->pos_, __CPROVER_object_whole(portable_attribute_data))\n'
                  '__CPROVER_loop_invariant(i <= num_values && DB_INV(in_buffer) && in_buffer->pos_ >= __CPROVER_loop_entry(in_buffer->pos_))\n'
                  '__CPROVER_decreases(num_values - i)'}},
    # second, independent slice of the array zig-zag conversion for the IN-PLACE call made above (in == out)
    {'name': 'ConvertSymbolsToSignedInts_inplace', 'file': 'src/draco/core/bit_utils.cc',
     'anchor': r'void ConvertSymbolsToSignedInts\(const uint32_t \*in, int in_values,\s*int32_t \*out\)\s*\{',
     'sig': 'void ConvertSymbolsToSignedInts_inplace(const uint32_t *in, int in_values, int32_t *out)',
     'subst': [(r'\bConvertSymbolToSignedInt\(', 'U2S_u32(', 1)],
     'loops': {0: '__CPROVER_assigns(i, __CPROVER_object_whole(out))\n__CPROVER_loop_invariant(0 <= i && i <= in_values)\n'
                  '__CPROVER_loop_invariant(ghost_k < 0 || ghost_k >= in_values || out[ghost_k] == (ghost_k < i ? ZZ_U2S32((uint32_t)__CPROVER_loop_entry(out[ghost_k >= 0 && ghost_k < in_values ? ghost_k : 0])) : __CPROVER_loop_entry(out[ghost_k >= 0 && ghost_k < in_values ? ghost_k : 0])))\n'
                  '__CPROVER_decreases(in_values - i)'}},
    # the raw (no built-in compression) branch of SequentialIntegerAttributeEncoder::EncodeValues: byte width chosen from the OR of all symbols, then
    # every symbol written with that many low-order bytes
    {'name': 'SIAE_EncodeRawValues', 'file': AE,
     'region': r'"use_built_in_attribute_compression", true\)\) \{.*?\} else \{\n(.*?)\n  \}\n  if \(prediction_scheme_\) \{\s*prediction_scheme_->EncodePredictionData', 'region_tail': 'return true;',
     'sig': 'bool SIAE_EncodeRawValues(const int32_t *encoded_data, int num_values, struct EncoderBuffer *out_buffer)',
     'subst': [(r'encoded_data\.data\(\)', 'encoded_data', 0), (r'out_buffer->Encode\(static_cast<uint8_t>\(((?:[^()]|\([^()]*\))*)\)\)', r'EncoderBuffer_Encode_u8_val(out_buffer, (uint8_t)(\1))', 0),
               (r'out_buffer->Encode\(', 'EncoderBuffer_EncodeBytes(out_buffer, ', 0), (r'DataTypeLength\(DT_INT32\)', '4', 0)]},
    # LinearSequencer::GenerateSequenceInternal: the point sequence of the sequential codecs is the identity over num_points, and a NEGATIVE count
    # (PointCloudSequentialDecoder reads num_points as int32 without a sign check; MeshSequentialDecoder narrows a uint32) must be refused here
    {'name': 'LinearSequencer_GenerateSequenceInternal', 'file': A + 'linear_sequencer.h', 'anchor': r'bool GenerateSequenceInternal\(\) override\s*\{',
     'sig': 'bool LinearSequencer_GenerateSequenceInternal(struct LinearSequencer *self)',
     'subst': [(r'std::vector<PointIndex> \*(?:const )?(\w+) = out_point_ids\(\);', '', 0),      # a local alias of the output vector: every receiver is the one vector of the model
               (r'(?:out_point_ids\(\)|\b\w+)->resize\(((?:[^()]|\([^()]*\))*)\)', r'pid_resize(self, \1)', 0), (r'(?:out_point_ids\(\)|\b\w+)->at\(((?:[^()]|\([^()]*\))*)\)', r'self->out_point_ids.data[\1]', 0),
               (r'(?:out_point_ids\(\)|\b\w+)->push_back\(', 'pid_push_back(self, ', 0), (r'(?:out_point_ids\(\)|\b\w+)->reserve\(((?:[^()]|\([^()]*\))*)\)', r'pid_reserve(self, \1)', 0),
               (r'(?:out_point_ids\(\)|\b\w+)->clear\(\)', 'pid_clear(self)', 0), (r'PointIndex\(((?:[^()]|\([^()]*\))*)\)', r'((uint32_t)(\1))', 0)],
     'members': ['num_points_'],
     'loops': {0: '__CPROVER_assigns(i, self->out_point_ids.size, __CPROVER_object_whole(self->out_point_ids.data))\n__CPROVER_loop_invariant(0 <= i && i <= self->num_points_)\n'
                  '__CPROVER_loop_invariant((__CPROVER_loop_entry(self->out_point_ids.size) == (size_t)self->num_points_ && self->out_point_ids.size == (size_t)self->num_points_) || (__CPROVER_loop_entry(self->out_point_ids.size) == 0 && self->out_point_ids.size == (size_t)i))\n'
                  '__CPROVER_loop_invariant(ghost_k < 0 || ghost_k >= i || self->out_point_ids.data[ghost_k] == (uint32_t)ghost_k)\n__CPROVER_decreases(self->num_points_ - i)'}},
]
UNIT = {'name': 'attrdec', 'structs': [], 'consts': [], 'functions': functions,
        'pre_text': ['struct vec_pid { const uint32_t *data; size_t size; };',
                     '/* SequentialIntegerAttributeDecoder seen from DecodeIntegerValues: the portable attribute (an int32 array of port_entries * port_components values,\n'
                     ' * created by PreparePortableAttribute), the optional prediction scheme (opaque), the number of value components (virtual call) */\n'
                     'struct pidvec { uint32_t *data; size_t size; size_t cap; };\nstruct LinearSequencer { int32_t num_points_; struct pidvec out_point_ids; };',
                     'struct SIAD { int32_t *port_data; size_t port_bytes; int port_entries; int port_components; void *prediction_scheme_; int num_value_components; int64_t remaining_at_entry; };']}
SRC = 'contracts/attrdec.c'
DEFS = ['-DDRACO_BACKWARDS_COMPATIBILITY_SUPPORTED']
JOBS = []
def J(id, entry, props, enforce=None, replace=(), loops=False, unwind=None, unwind_reason=None, **kw):
    j = {'id': 'attrdec.' + id, 'src': SRC, 'entry': entry, 'enforce': enforce, 'replace': list(replace), 'loops': loops,
         'unwind': unwind, 'unwind_reason': unwind_reason, 'props': props, 'defines': DEFS}
    j.update(kw); JOBS.append(j); return j
COSIM = False
ASSUMPTIONS = ['SequentialIntegerAttributeDecoder: PreparePortableAttribute / GetPortableAttributeData / portable_attribute()->buffer()->data_size() are contract stubs (the portable attribute is an int32 array of num_entries * num_components values, as PointAttribute::Reset allocates it); the prediction scheme is an opaque object whose three virtual calls are stubs requiring exactly the buffer extent DecodeIntegerValues is entitled to pass',
               'DecodeSymbols is used through a contract that requires the output array to hold num_values entries (its dispatch is under contract in unit symbols; its loops are not)',
               'raw attribute path: only the else-branch of SequentialIntegerAttributeEncoder::EncodeValues is sliced (region); the lemma reads the values back through the frozen layout (num_bytes low-order bytes, little endian, zero extended), which is what DecodeIntegerValues (under contract for memory safety) does',
               'point_ids.size() < 2^31 / num_components (the cast static_cast<int>(num_entries) and the product num_entries * num_components are caller obligations: the number of points is checked against the stream length by the callers)']
# The sizes in this function are products num_entries * num_components * sizeof: with a SYMBOLIC component count the solver has to relate the multiplier
# in the code to the one in the stub contracts (measured: no answer in 15 min); with the count fixed per job every product is by a constant.
# Quick tier: counts <= 0 (refused), 1..6 and 8; thorough: the rest up to 32 (7 alone needs ~15 min: a multiplier by 7 on both sides).
for nc in [0] + list(range(1, 33)):
    J('DecodeIntegerValues.contract.nc%d' % nc, 'h_enf_SIAD_DecodeIntegerValues', ['C02', 'C03', 'C18'], enforce='SIAD_DecodeIntegerValues', loops=True, defines=DEFS + ['-DATTR_NC=%d' % nc],
      replace=['DecoderBuffer_DecodeBytes', 'DecodeSymbols', 'ConvertSymbolsToSignedInts_inplace', 'PS_AreCorrectionsPositive', 'PS_DecodePredictionData', 'PS_ComputeOriginalValues'],
      timeout=900, cost=4, cbmc=['--object-bits', '11'], tier=None if nc in (0, 1, 2, 3, 4, 5, 6, 8) else 'thorough', no_vacuity=nc > 2, may_time_out=nc not in (0, 1, 2, 3, 4, 5, 6, 8))
J('LinearSequencer.contract', 'h_enf_LinearSequencer_GenerateSequenceInternal', ['C03', 'C02'], enforce='LinearSequencer_GenerateSequenceInternal', loops=True, replace=['pid_resize', 'pid_push_back', 'pid_reserve', 'pid_clear'])
J('rawvalues.rt', 'h_rawvalues_rt', ['C04', 'C05', 'C01'], unwind=34,
  unwind_reason='bounded: num_values <= 3 (loops over the values; 32-byte model initialisation; byte copies of <= 12 bytes); all symbol values; unwinding assertions on')
J('ConvertSymbolsToSignedInts.inplace.contract', 'h_enf_ConvertSymbolsToSignedInts_inplace', ['C02', 'C17'], enforce='ConvertSymbolsToSignedInts_inplace', loops=True, timeout=900, cost=4)
