"""Unit 'quant' (C04, C12): Quantizer / Dequantizer kernels and the range computation of AttributeQuantizationTransform."""
QH = 'src/draco/core/quantization_utils.h'
QC = 'src/draco/core/quantization_utils.cc'
AQ = 'src/draco/attributes/attribute_quantization_transform.cc'
DEPS = ['core']
functions = [
    {'name': 'Quantizer_Init', 'file': QC, 'anchor': r'void Quantizer::Init\(float range, int32_t max_quantized_value\)\s*\{', 'sig': 'void Quantizer_Init(struct Quantizer *self, float range, int32_t max_quantized_value)', 'members': ['inverse_delta_']},
    {'name': 'Quantizer_QuantizeFloat', 'file': QH, 'anchor': r'inline int32_t QuantizeFloat\(float val\) const\s*\{', 'sig': 'int32_t Quantizer_QuantizeFloat(const struct Quantizer *self, float val)', 'members': ['inverse_delta_']},
    {'name': 'Dequantizer_Init', 'file': QC, 'anchor': r'bool Dequantizer::Init\(float range, int32_t max_quantized_value\)\s*\{', 'sig': 'bool Dequantizer_Init(struct Dequantizer *self, float range, int32_t max_quantized_value)', 'members': ['delta_']},
    {'name': 'Dequantizer_DequantizeFloat', 'file': QH, 'anchor': r'inline float DequantizeFloat\(int32_t val\) const\s*\{', 'sig': 'float Dequantizer_DequantizeFloat(const struct Dequantizer *self, int32_t val)', 'members': ['delta_']},
    {'name': 'AQT_IsQuantizationValid', 'file': AQ, 'anchor': r'bool AttributeQuantizationTransform::IsQuantizationValid\(\s*int quantization_bits\)\s*\{', 'sig': 'bool AQT_IsQuantizationValid(int quantization_bits)'},
    # tail of ComputeParameters: from the per-component extent loop to the degenerate-range fallback
    {'name': 'AQT_ComputeRangeTail', 'file': AQ,
     'region': r'\n(  for \(int c = 0; c < num_components; \+\+c\) \{\n    if \(std::isnan\(min_values_\[c\]\).*?)\n\n  return true;\n\}\n\nbool AttributeQuantizationTransform::EncodeParameters',
     'region_tail': 'return true;',
     'sig': 'bool AQT_ComputeRangeTail(struct AQT *self, int num_components, const float *max_values)',
     'subst': [(r'std::isnan\(', 'isnan(', 0), (r'std::isinf\(', 'isinf(', 0), (r'\bmin_values_\[', 'self->min_values_[', 1)], 'members': ['range_']},
]
UNIT = {'name': 'quant', 'structs': [
    {'struct': 'Quantizer', 'file': QH, 'fields': [('float inverse_delta_', r'float inverse_delta_;')]},
    {'struct': 'Dequantizer', 'file': QH, 'fields': [('float delta_', r'float delta_;')]},
    {'struct': 'AQT', 'file': 'src/draco/attributes/attribute_quantization_transform.h', 'fields': [('int32_t quantization_bits_', r'int32_t quantization_bits_;'), ('float *min_values_', r'std::vector<float> min_values_;'), ('float range_', r'float range_;')]},
], 'consts': [], 'functions': functions, 'pre_text': []}
SRC = 'contracts/quant.c'
DEFS = ['-DDRACO_BACKWARDS_COMPATIBILITY_SUPPORTED']
JOBS = []
def J(id, entry, props, enforce=None, replace=(), loops=False, unwind=None, unwind_reason=None, **kw):
    j = {'id': 'quant.' + id, 'src': SRC, 'entry': entry, 'enforce': enforce, 'replace': list(replace), 'loops': loops,
         'unwind': unwind, 'unwind_reason': unwind_reason, 'props': props, 'defines': DEFS}
    j.update(kw); JOBS.append(j); return j
FL = ['--float-overflow-check', '--nan-check', '--conversion-check'] if False else ['--conversion-check']
for q in range(1, 31):
    quick = q in (1, 2, 4, 8, 10)
    if q <= 16:
        J('grid.q%d' % q, 'h_quant_grid', ['C04', 'C12'], defines=DEFS + ['-DQ=%d' % q], cbmc=FL, tier=None if quick else 'thorough', timeout=1800, cost=7, native=True, may_time_out=not quick)
J('mono', 'h_quant_mono', ['C04'], cbmc=FL, native=True, timeout=3600, tier='thorough', may_time_out=True)
J('pure', 'h_enf_Quantizer_QuantizeFloat', ['C04', 'C12'], enforce='Quantizer_QuantizeFloat', cbmc=FL)
J('pure.deq', 'h_enf_Dequantizer_DequantizeFloat', ['C04', 'C12'], enforce='Dequantizer_DequantizeFloat')
J('IsQuantizationValid.contract', 'h_enf_AQT_IsQuantizationValid', ['C04', 'C12', 'C05'], enforce='AQT_IsQuantizationValid')
J('Dequantizer_Init.contract', 'h_enf_Dequantizer_Init', ['C04'], enforce='Dequantizer_Init')
J('range', 'h_aqt_range', ['C04'], unwind=6, unwind_reason='bounded: num_components <= 4 (component loop)', native=True)
TYPES_PRELUDE = ['core_types.h']
COSIM = True
NATIVE_SOURCES = ['src/draco/core/quantization_utils.cc', 'src/draco/attributes/attribute_quantization_transform.cc', 'src/draco/attributes/attribute_transform.cc', 'src/draco/attributes/point_attribute.cc', 'src/draco/attributes/geometry_attribute.cc', 'src/draco/core/data_buffer.cc', 'src/draco/core/draco_types.cc']
NATIVE_LINK_CORE = False
ASSUMPTIONS = ['IEEE-754 binary32/64 round-to-nearest-even as modelled bit-exactly by CBMC (float kernels compiled without -ffast-math, x86-64 SSE arithmetic: no excess precision)',
               'the half-step error bound itself (quant.halfstep) is NOT decided: measured undecided (>25 min) even for q=2; what is proved is the index range, monotonicity, purity, the Dequantizer guard and the range computation',
               'AttributeQuantizationTransform::ComputeParameters is covered only from its per-component extent loop on (slicer rule region); std::vector<float> min_values_ modelled as a float pointer']
