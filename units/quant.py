"""Unit 'quant' (C04, C12): Quantizer / Dequantizer kernels and the range computation of AttributeQuantizationTransform."""
QH = 'src/draco/core/quantization_utils.h'
QC = 'src/draco/core/quantization_utils.cc'
AQ = 'src/draco/attributes/attribute_quantization_transform.cc'
DEPS = ['core']
functions = [
    {'name': 'Quantizer_Init', 'file': QC, 'anchor': r'void Quantizer::Init\(float range, int32_t max_quantized_value\)\s*\{', 'sig': 'void Quantizer_Init(struct Quantizer *self, float range, int32_t max_quantized_value)', 'members': ['inverse_delta_']},
    {'name': 'Quantizer_QuantizeFloat', 'file': QH, 'anchor': r'inline int32_t QuantizeFloat\(float val\) const\s*\{', 'sig': 'int32_t Quantizer_QuantizeFloat(const struct Quantizer *self, float val)', 'members': ['inverse_delta_']},
    {'name': 'Dequantizer_Init', 'file': QC, 'anchor': r'bool Dequantizer::Init\(float range, int32_t max_quantized_value\)\s*\{', 'sig': 'bool Dequantizer_Init(struct Dequantizer *self, float range, int32_t max_quantized_value)', 'members': ['delta_']},
    {'name': 'Dequantizer_DequantizeFloat', 'file': QH, 'anchor': r'inline float DequantizeFloat\(int32_t val\) const\s*\{', 'sig': 'float Dequantizer_DequantizeFloat(const struct Dequantizer *self, int32_t val)', 'members': ['delta_']},
    {'name': 'AQT_IsQuantizationValid', 'file': AQ, 'anchor': r'bool AttributeQuantizationTransform::IsQuantizationValid\(\s*int quantization_bits\)\s*\{', 'sig': 'bool AQT_IsQuantizationValid(int quantization_bits)'},
    # tail of ComputeParameters: from the per-component extent loop to the degenerate-range fallback
    {'name': 'AQT_ComputeRangeTail', 'file': AQ,
     'region': r'\n(  for \(int c = 0; c < num_components; \+\+c\) \{\n    if \(std::isnan\(min_values_\[c\]\).*?)\n\n  return true;\n\}\n\nbool AttributeQuantizationTransform::EncodeParameters',
     'region_tail': 'return true;',
     'sig': 'bool AQT_ComputeRangeTail(struct AQT *self, int num_components, const float *max_values)',
     'subst': [(r'std::isnan\(', 'isnan(', 0), (r'std::isinf\(', 'isinf(', 0), (r'\bmin_values_\[', 'self->min_values_[', 1)], 'members': ['range_']},
    # transport of the quantization parameters (origin per component, range, bits) through the stream
    {'name': 'AQT_EncodeParameters', 'file': AQ, 'anchor': r'bool AttributeQuantizationTransform::EncodeParameters\(\s*EncoderBuffer \*encoder_buffer\) const\s*\{',
     'sig': 'bool AQT_EncodeParameters(const struct AQTP *self, struct EncoderBuffer *encoder_buffer)',
     'subst': [(r'is_initialized\(\)', 'AQTP_is_initialized(self)', 0), (r'encoder_buffer->Encode\(min_values_\.data\(\),\s*sizeof\(float\) \* min_values_\.size\(\)\)', 'EncoderBuffer_EncodeBytes(encoder_buffer, self->min_values_.data, sizeof(float) * self->min_values_.size)', 0),
               (r'encoder_buffer->Encode\(range_\)', 'EncoderBuffer_Encode_f32(encoder_buffer, &self->range_)', 0),
               (r'encoder_buffer->Encode\(static_cast<uint8_t>\(quantization_bits_\)\)', 'EncoderBuffer_Encode_u8_val(encoder_buffer, (uint8_t)(self->quantization_bits_))', 0)]},
    {'name': 'AQT_DecodeParameters', 'file': AQ, 'anchor': r'bool AttributeQuantizationTransform::DecodeParameters\(\s*const PointAttribute &attribute, DecoderBuffer \*decoder_buffer\)\s*\{',
     'sig': 'bool AQT_DecodeParameters(struct AQTP *self, int attribute_num_components, struct DecoderBuffer *decoder_buffer)',
     'subst': [(r'min_values_\.resize\(attribute\.num_components\(\)\)', 'fvec_resize(&self->min_values_, (size_t)attribute_num_components)', 0),
               (r'decoder_buffer->Decode\(&min_values_\[0\],\s*sizeof\(float\) \* min_values_\.size\(\)\)', 'DecoderBuffer_DecodeBytes(decoder_buffer, &self->min_values_.data[0], sizeof(float) * self->min_values_.size)', 0),
               (r'decoder_buffer->Decode\(&range_\)', 'DecoderBuffer_Decode_f32(decoder_buffer, &self->range_)', 0), (r'decoder_buffer->Decode\(&quantization_bits\)', 'DecoderBuffer_Decode_u8(decoder_buffer, &quantization_bits)', 0),
               (r'\bIsQuantizationValid\(', 'AQT_IsQuantizationValid(', 0), (r'(?<![\w>.])quantization_bits_\b', 'self->quantization_bits_', 0)]},
]
UNIT = {'name': 'quant', 'structs': [
    {'struct': 'Quantizer', 'file': QH, 'fields': [('float inverse_delta_', r'float inverse_delta_;')]},
    {'struct': 'Dequantizer', 'file': QH, 'fields': [('float delta_', r'float delta_;')]},
    {'struct': 'AQT', 'file': 'src/draco/attributes/attribute_quantization_transform.h', 'fields': [('int32_t quantization_bits_', r'int32_t quantization_bits_;'), ('float *min_values_', r'std::vector<float> min_values_;'), ('float range_', r'float range_;')]},
], 'consts': [], 'functions': functions,
   'pre_text': ['struct fvec { float *data; size_t size; size_t cap; };\nstruct AQTP { int32_t quantization_bits_; struct fvec min_values_; float range_; };   /* same members as struct AQT, min_values_ as a vector model */']}
SRC = 'contracts/quant.c'
DEFS = ['-DDRACO_BACKWARDS_COMPATIBILITY_SUPPORTED']
JOBS = []
def J(id, entry, props, enforce=None, replace=(), loops=False, unwind=None, unwind_reason=None, **kw):
    j = {'id': 'quant.' + id, 'src': SRC, 'entry': entry, 'enforce': enforce, 'replace': list(replace), 'loops': loops,
         'unwind': unwind, 'unwind_reason': unwind_reason, 'props': props, 'defines': DEFS}
    j.update(kw); JOBS.append(j); return j
FL = ['--float-overflow-check', '--nan-check', '--conversion-check'] if False else ['--conversion-check']
for q in range(1, 31):
    quick = q in (1, 2, 4, 8, 10)
    if q <= 16:
        J('grid.q%d' % q, 'h_quant_grid', ['C04', 'C12'], defines=DEFS + ['-DQ=%d' % q], cbmc=FL, tier=None if quick else 'thorough', timeout=1800, cost=7, native=True, may_time_out=not quick)
for nc in (1, 2, 3):   # per component count: CBMC's memcpy model loses bytes for a SYMBOLIC length into a typed array (DESIGN A.5), a constant length is exact
    J('params.rt.nc%d' % nc, 'h_quant_params_rt', ['C04', 'C05', 'C12'], defines=DEFS + ['-DQP_NC=%d' % nc], unwind=34, unwind_reason='bounded: at most 3 components (byte copies of <= 12 bytes, 32-byte vector model); every origin, range and bit count; unwinding assertions on')
J('mono', 'h_quant_mono', ['C04'], cbmc=FL, native=True, timeout=3600, tier='thorough', may_time_out=True)
J('pure', 'h_enf_Quantizer_QuantizeFloat', ['C04', 'C12'], enforce='Quantizer_QuantizeFloat', cbmc=FL)
J('pure.deq', 'h_enf_Dequantizer_DequantizeFloat', ['C04', 'C12'], enforce='Dequantizer_DequantizeFloat')
J('IsQuantizationValid.contract', 'h_enf_AQT_IsQuantizationValid', ['C04', 'C12', 'C05'], enforce='AQT_IsQuantizationValid')
J('Dequantizer_Init.contract', 'h_enf_Dequantizer_Init', ['C04'], enforce='Dequantizer_Init')
J('range', 'h_aqt_range', ['C04'], unwind=6, unwind_reason='bounded: num_components <= 4 (component loop)', native=True)
TYPES_PRELUDE = ['core_types.h']
COSIM = True
NATIVE_SOURCES = ['src/draco/core/quantization_utils.cc', 'src/draco/attributes/attribute_quantization_transform.cc', 'src/draco/attributes/attribute_transform.cc', 'src/draco/attributes/point_attribute.cc', 'src/draco/attributes/geometry_attribute.cc', 'src/draco/core/data_buffer.cc', 'src/draco/core/draco_types.cc']
NATIVE_LINK_CORE = False
ASSUMPTIONS = ['IEEE-754 binary32/64 round-to-nearest-even as modelled bit-exactly by CBMC (float kernels compiled without -ffast-math, x86-64 SSE arithmetic: no excess precision)',
               'the half-step error bound itself (quant.halfstep) is NOT decided: measured undecided (>25 min) even for q=2; what is proved is the index range, monotonicity, purity, the Dequantizer guard and the range computation',
               'AttributeQuantizationTransform::ComputeParameters is covered only from its per-component extent loop on (slicer rule region); std::vector<float> min_values_ modelled as a float pointer']
