"""Unit 'meta' (C11, C18, C02): metadata name/entry codec: MetadataEncoder::EncodeString, the entry loop body of
MetadataEncoder::EncodeMetadata, failure propagation of the nested encoders, MetadataDecoder::DecodeName / DecodeEntry."""
ME = 'src/draco/metadata/metadata_encoder.cc'
MD = 'src/draco/metadata/metadata_decoder.cc'
DEPS = ['core']
functions = [
    {'name': 'MetadataEncoder_EncodeString', 'file': ME, 'anchor': r'bool MetadataEncoder::EncodeString\(EncoderBuffer \*out_buffer,\s*const std::string &str\)\s*\{',
     'sig': 'bool MetadataEncoder_EncodeString(struct EncoderBuffer *out_buffer, const struct cstr *str)',
     'subst': [(r'str\.size\(\)', 'str->size', 0), (r'str\.empty\(\)', '(str->size == 0)', 0), (r'str\.(?:c_str|data)\(\)', 'str->data', 0),
               (r'out_buffer->Encode\(static_cast<uint8_t>\(((?:[^()]|\([^()]*\))*)\)\)', r'ENCODE_U8(out_buffer, (uint8_t)(\1))', 1),
               (r'out_buffer->Encode\(str->data, str->size\)', 'EncoderBuffer_EncodeBytes(out_buffer, str->data, str->size)', 1)]},
    # loop body of `for (const auto &entry : entries)` in EncodeMetadata, as a function of one (name, value) pair
    {'name': 'MetadataEncoder_EncodeEntryBody', 'file': ME,
     'region': r'for \(const auto &entry : entries\) \{\n(.*?out_buffer->Encode\(entry_value\.data\(\), data_size\);)\n\s*\}',
     'region_tail': 'return true;',
     'sig': 'bool MetadataEncoder_EncodeEntryBody(struct EncoderBuffer *out_buffer, const struct cstr *entry_first, const struct cbytes *entry_second_data)',
     'subst': [(r'EncodeString\(out_buffer, entry\.first\)', 'MetadataEncoder_EncodeString(out_buffer, entry_first)', 1),
               (r'const std::vector<uint8_t> &entry_value = entry\.second\.data\(\);', 'const struct cbytes *entry_value = entry_second_data;', 1),
               (r'entry_value\.size\(\)', 'entry_value->size', 1), (r'entry_value\.data\(\)', 'entry_value->data', 1),
               (r'EncodeVarint\(data_size, out_buffer\)', 'EncodeVarint_u32(data_size, out_buffer)', 1),
               (r'out_buffer->Encode\(entry_value->data, data_size\)', 'EncoderBuffer_EncodeBytes(out_buffer, entry_value->data, data_size)', 1)]},
    # loop body of the sub-metadata loop: failure of the nested encoder must propagate
    {'name': 'MetadataEncoder_EncodeSubMetadataBody', 'file': ME,
     'region': r'for \(auto &&sub_metadata_entry : sub_metadatas\) \{\n(.*?)\n  \}\n\n  return true;',
     'region_tail': 'return true;',
     'sig': 'bool MetadataEncoder_EncodeSubMetadataBody(struct EncoderBuffer *out_buffer, const struct cstr *sub_first, const void *sub_second)',
     'subst': [(r'EncodeString\(out_buffer, sub_metadata_entry\.first\)', 'MetadataEncoder_EncodeString(out_buffer, sub_first)', 1),
               (r'EncodeMetadata\(out_buffer, sub_metadata_entry\.second\.get\(\)\)', 'MetadataEncoder_EncodeMetadata_rec(out_buffer, sub_second)', 1)]},
    {'name': 'MetadataEncoder_EncodeAttributeMetadata', 'file': ME,
     'anchor': r'bool MetadataEncoder::EncodeAttributeMetadata\(\s*EncoderBuffer \*out_buffer, const AttributeMetadata \*metadata\)\s*\{',
     'sig': 'bool MetadataEncoder_EncodeAttributeMetadata(struct EncoderBuffer *out_buffer, const void *metadata)',
     'subst': [(r'EncodeVarint\(metadata->att_unique_id\(\), out_buffer\)', 'EncodeVarint_u32(AttributeMetadata_att_unique_id(metadata), out_buffer)', 1),
               (r'EncodeMetadata\(out_buffer, static_cast<const Metadata \*>\(metadata\)\)', 'MetadataEncoder_EncodeMetadata_rec(out_buffer, metadata)', 1)]},
    # loop body + tail of EncodeGeometryMetadata
    {'name': 'MetadataEncoder_EncodeGeometryMetadataTail', 'file': ME,
     'region': r'for \(auto &&att_metadata : att_metadatas\) \{\n(.*?)\n\n  return true;\n\}',
     'region_tail': 'return true;',
     'sig': 'bool MetadataEncoder_EncodeGeometryMetadataTail(struct EncoderBuffer *out_buffer, const void *att_metadata_get, const void *metadata)',
     'subst': [(r'EncodeAttributeMetadata\(out_buffer, att_metadata\.get\(\)\)', 'MetadataEncoder_EncodeAttributeMetadata(out_buffer, att_metadata_get)', 1),
               (r'EncodeMetadata\(out_buffer, static_cast<const Metadata \*>\(metadata\)\)', 'MetadataEncoder_EncodeMetadata_rec(out_buffer, metadata)', 1),
               (r'\n  \}\n', r'\n', 1, 1)]},   # closing brace of the range-for (first brace at loop indentation)
    {'name': 'MetadataDecoder_DecodeName', 'file': MD, 'anchor': r'bool MetadataDecoder::DecodeName\(std::string \*name\)\s*\{',
     'sig': 'bool MetadataDecoder_DecodeName(struct MetadataDecoder *self, struct cstr *name)',
     'subst': [(r'buffer_->Decode\(&name_len\)', 'DecoderBuffer_Decode_u8(self->buffer_, &name_len)', 1), (r'name->resize\(name_len\)', 'cstr_resize(name, name_len)', 1), (r'name->size\(\)', 'name->size', 0), (r'name->empty\(\)', '(name->size == 0)', 0),
               (r'buffer_->Decode\(&name->at\(0\), name_len\)', 'DecoderBuffer_DecodeBytes(self->buffer_, &name->data[0], name_len)', 1)]},
    {'name': 'MetadataDecoder_DecodeEntry', 'file': MD, 'anchor': r'bool MetadataDecoder::DecodeEntry\(Metadata \*metadata\)\s*\{',
     'sig': 'bool MetadataDecoder_DecodeEntry(struct MetadataDecoder *self, struct MetadataGhost *metadata)',
     'subst': [(r'std::string entry_name;', 'struct cstr entry_name; cstr_construct(self, &entry_name);', 1), (r'DecodeName\(&entry_name\)', 'MetadataDecoder_DecodeName(self, &entry_name)', 1),
               (r'DecodeVarint\(&data_size, buffer_\)', 'DecodeVarint_u32(&data_size, self->buffer_)', 1), (r'buffer_->remaining_size\(\)', 'DecoderBuffer_remaining_size(self->buffer_)', 1),
               (r'std::vector<uint8_t> entry_value\(data_size\);', 'struct cbytes entry_value; cbytes_construct(self, &entry_value, data_size);', 1),
               (r'buffer_->Decode\(&entry_value\[0\], data_size\)', 'DecoderBuffer_DecodeBytes(self->buffer_, &entry_value.data[0], data_size)', 1),
               (r'metadata->AddEntryBinary\(entry_name, entry_value\)', 'Metadata_AddEntryBinary(metadata, &entry_name, &entry_value)', 1)]},
]
UNIT = {'name': 'meta', 'structs': [], 'consts': [], 'functions': functions,
        'pre_text': ['struct cbytes { uint8_t *data; size_t size; }; /* std::vector<uint8_t> value */',
                     'struct MetadataDecoder { struct DecoderBuffer *buffer_; int64_t remaining_at_entry; uint8_t *name_store; uint8_t *value_store; size_t value_store_cap; };',
                     'struct MetadataGhost { const struct cstr *last_name; const struct cbytes *last_value; uint32_t entries_added; };',
                     '#define ENCODE_U8(b, v) EncoderBuffer_Encode_u8_val(b, v)']}
SRC = 'contracts/meta.c'
DEFS = ['-DDRACO_BACKWARDS_COMPATIBILITY_SUPPORTED']
JOBS = []
def J(id, entry, props, enforce=None, replace=(), loops=False, unwind=None, unwind_reason=None, **kw):
    j = {'id': 'meta.' + id, 'src': SRC, 'entry': entry, 'enforce': enforce, 'replace': list(replace), 'loops': loops,
         'unwind': unwind, 'unwind_reason': unwind_reason, 'props': props, 'defines': DEFS}
    j.update(kw); JOBS.append(j); return j
TYPES_PRELUDE = ['cstr.h', 'core_types.h']
COSIM = False

J('EncodeString.contract', 'h_enf_MetadataEncoder_EncodeString', ['C11'], enforce='MetadataEncoder_EncodeString', replace=['EncoderBuffer_Encode_u8', 'EncoderBuffer_EncodeBytes'],
  native_api={'src': 'native/api_metadata_rt.cc', 'args': ['name256']})
J('DecodeName.contract', 'h_enf_MetadataDecoder_DecodeName', ['C11', 'C02', 'C18'], enforce='MetadataDecoder_DecodeName', replace=['DecoderBuffer_Decode_u8', 'cstr_resize', 'DecoderBuffer_DecodeBytes'])
J('name.rt', 'h_meta_name', ['C11'], replace=['MetadataEncoder_EncodeString', 'MetadataDecoder_DecodeName'])
J('DecodeEntry.contract', 'h_enf_MetadataDecoder_DecodeEntry', ['C11', 'C02', 'C18'], enforce='MetadataDecoder_DecodeEntry',
  replace=['MetadataDecoder_DecodeName', 'DecodeVarint_u32', 'DecoderBuffer_remaining_size', 'cbytes_construct', 'cstr_construct', 'DecoderBuffer_DecodeBytes', 'Metadata_AddEntryBinary'])
J('propagate', 'h_meta_propagate', ['C11'], native_api={'src': 'native/api_metadata_rt.cc', 'args': ['longname']}, unwind=8, unwind_reason='bounded: names <= 2 bytes, varint recursion <= 5, vector-model loops <= 2 bytes')
J('entry.rt', 'h_meta_entry', ['C11'], native_api={'src': 'native/api_metadata_rt.cc', 'args': ['empty']}, unwind=66, unwind_reason='bounded: name <= 2 bytes, value <= 4 bytes, 64-byte vector model; varint recursion <= 5', timeout=1500, cost=8)
ASSUMPTIONS = ['std::string / std::vector<uint8_t> / Metadata are modelled by struct cstr / struct cbytes / ghost struct MetadataGhost with contract-only constructors (cstr_construct, cbytes_construct carries the C18 bound as its precondition)',
               'the loop bodies of the range-for loops over std::map in EncodeMetadata / EncodeGeometryMetadata are sliced as statement regions (slicer rule region); map iteration order and the recursion itself are not modelled',
               'meta.entry and meta.propagate are bounded stand-ins (name <= 2, value <= 4 bytes); the unbounded facts are the contracts of EncodeString/DecodeName/DecodeEntry and the varint round trip of unit core']
