"""Unit 'ans': rABS / rANS primitives of src/draco/compression/entropy/ans.h and fastdiv (core/divide.*).
The class templates RAnsEncoder<P>/RAnsDecoder<P> are instantiated per job with -DRANS_P=<P>."""
AH = 'src/draco/compression/entropy/ans.h'
DH = 'src/draco/core/divide.h'
DC = 'src/draco/core/divide.cc'
DEPS = ['core']

consts = [
    {'const': 'LUT_ELEM_T_FROM_SOURCE', 'file': AH, 'regex': r'std::vector<(\w+)> lut_table_;', 'noparen': True, 'resolve_alias': True},
    {'const': 'DRACO_ANS_P8_PRECISION', 'file': AH, 'regex': r'#define DRACO_ANS_P8_PRECISION (\S+)'},
    {'const': 'DRACO_ANS_L_BASE', 'file': AH, 'regex': r'#define DRACO_ANS_L_BASE (\S+)'},
    {'const': 'DRACO_ANS_IO_BASE', 'file': AH, 'regex': r'#define DRACO_ANS_IO_BASE (\S+)'},
    {'const': 'DRACO_ANS_DIVIDE_BY_MULTIPLY', 'file': AH, 'regex': r'#define DRACO_ANS_DIVIDE_BY_MULTIPLY (\S+)'},
    {'const': 'DRACO_ANS_IMPL1', 'file': AH, 'regex': r'#define DRACO_ANS_IMPL1 (\S+)'},
    {'const': 'UNPREDICTABLE(x)', 'file': AH, 'regex': r'#define UNPREDICTABLE\(x\) (\S+)'},
    {'const': 'rans_precision', 'file': AH, 'regex': r'static constexpr int rans_precision = ([^;]+);', 'count': 2},
    {'const': 'l_rans_base', 'file': AH, 'regex': r'static constexpr int l_rans_base = ([^;]+);', 'count': 2},
]
raw = [
    {'raw': 'DRACO_ANS_DIVREM/DIV macros', 'file': AH,
     'regex': r'(#if DRACO_ANS_DIVIDE_BY_MULTIPLY\s*\n\s*#define DRACO_ANS_DIVREM.*?#define DRACO_ANS_DIV\(dividend, divisor\) \(\(dividend\) / \(divisor\)\)\s*\n#endif)'},
    {'raw': 'struct fastdiv_elem', 'file': DH, 'regex': r'(struct fastdiv_elem \{.*?\};)'},
    {'raw': 'vp10_fastdiv_tab', 'file': DC, 'regex': r'(const struct fastdiv_elem vp10_fastdiv_tab\[256\] = \{.*?\};)'},
]
structs = [
    {'struct': 'AnsCoder', 'file': AH, 'fields': [('uint8_t *buf', r'(?s)struct AnsCoder \{.{0,120}?uint8_t \*buf;'), ('int buf_offset', r'(?s)struct AnsCoder \{.{0,120}?int buf_offset;'), ('uint32_t state', r'(?s)struct AnsCoder \{.{0,120}?uint32_t state;')]},
    {'struct': 'AnsDecoder', 'file': AH, 'fields': [('const uint8_t *buf', r'(?s)struct AnsDecoder \{.{0,130}?const uint8_t \*buf;'), ('int buf_offset', r'(?s)struct AnsDecoder \{.{0,130}?int buf_offset;'), ('uint32_t state', r'(?s)struct AnsDecoder \{.{0,130}?uint32_t state;')]},
    {'struct': 'rans_sym', 'file': AH, 'fields': [('uint32_t prob', r'struct rans_sym \{\s*uint32_t prob;'), ('uint32_t cum_prob', r'struct rans_sym \{\s*uint32_t prob;\s*uint32_t cum_prob;')]},
    {'struct': 'rans_dec_sym', 'file': AH, 'fields': [('uint32_t val', r'struct rans_dec_sym \{\s*uint32_t val;'), ('uint32_t prob', r'struct rans_dec_sym \{\s*uint32_t val;\s*uint32_t prob;'), ('uint32_t cum_prob', r'(?s)struct rans_dec_sym \{.{0,80}?uint32_t cum_prob;')]},
    {'struct': 'RAnsEncoder', 'file': AH, 'fields': [('struct AnsCoder ans_', r'AnsCoder ans_;')]},
    {'struct': 'RAnsDecoder', 'file': AH, 'fields': [('struct vec_u32 lut_table_', r'std::vector<\w+> lut_table_;'), ('struct vec_sym probability_table_', r'std::vector<rans_sym> probability_table_;'),
                                                      ('struct AnsDecoder ans_', r'AnsDecoder ans_;')]},
]
functions = [
    {'name': 'fastdiv', 'file': DH, 'anchor': r'static inline unsigned fastdiv\(unsigned x, int y\)\s*\{', 'sig': 'unsigned fastdiv(unsigned x, int y)'},
]
for n in ['16', '24', '32']:
    functions.append({'name': 'mem_get_le' + n, 'file': AH, 'anchor': r'static (?:inline )?uint32_t mem_get_le%s\(const void \*vmem\)\s*\{' % n, 'sig': 'uint32_t mem_get_le%s(const void *vmem)' % n})
    functions.append({'name': 'mem_put_le' + n, 'file': AH, 'anchor': r'static inline void mem_put_le%s\(void \*vmem, uint32_t val\)\s*\{' % n, 'sig': 'void mem_put_le%s(void *vmem, uint32_t val)' % n})
functions += [
    {'name': 'ans_write_init', 'file': AH, 'anchor': r'static inline void ans_write_init\(struct AnsCoder \*const ans,\s*uint8_t \*const buf\)\s*\{', 'sig': 'void ans_write_init(struct AnsCoder *const ans, uint8_t *const buf)'},
    {'name': 'ans_write_end', 'file': AH, 'anchor': r'static inline int ans_write_end\(struct AnsCoder \*const ans\)\s*\{', 'sig': 'int ans_write_end(struct AnsCoder *const ans)'},
    {'name': 'rabs_desc_write', 'file': AH, 'anchor': r'static inline void rabs_desc_write\(struct AnsCoder \*ans, int val, AnsP8 p0\)\s*\{', 'sig': 'void rabs_desc_write(struct AnsCoder *ans, int val, AnsP8 p0)'},
    {'name': 'rabs_desc_read', 'file': AH, 'anchor': r'static inline int rabs_desc_read\(struct AnsDecoder \*ans, AnsP8 p0\)\s*\{', 'sig': 'int rabs_desc_read(struct AnsDecoder *ans, AnsP8 p0)'},
    {'name': 'ans_read_init', 'file': AH, 'anchor': r'static inline int ans_read_init\(struct AnsDecoder \*const ans,\s*const uint8_t \*const buf, int offset\)\s*\{',
     'sig': 'int ans_read_init(struct AnsDecoder *const ans, const uint8_t *const buf, int offset)'},
    {'name': 'ans_read_end', 'file': AH, 'anchor': r'static inline int ans_read_end\(struct AnsDecoder \*const ans\)\s*\{', 'sig': 'int ans_read_end(struct AnsDecoder *const ans)'},
    {'name': 'ans_reader_has_error', 'file': AH, 'anchor': r'static inline int ans_reader_has_error\(const struct AnsDecoder \*const ans\)\s*\{', 'sig': 'int ans_reader_has_error(const struct AnsDecoder *const ans)'},
]
EM = ['ans_']
DM = ['lut_table_', 'probability_table_', 'ans_']
functions += [
    {'name': 'RAnsEncoder_write_init', 'file': AH, 'anchor': r'inline void write_init\(uint8_t \*const buf\)\s*\{', 'sig': 'void RAnsEncoder_write_init(struct RAnsEncoder *self, uint8_t *const buf)', 'members': EM},
    {'name': 'RAnsEncoder_write_end', 'file': AH, 'anchor': r'inline int write_end\(\)\s*\{', 'sig': 'int RAnsEncoder_write_end(struct RAnsEncoder *self)', 'members': EM},
    {'name': 'RAnsEncoder_rans_write', 'file': AH, 'anchor': r'inline void rans_write\(const struct rans_sym \*const sym\)\s*\{', 'sig': 'void RAnsEncoder_rans_write(struct RAnsEncoder *self, const struct rans_sym *const sym)', 'members': EM},
    {'name': 'RAnsDecoder_read_init', 'file': AH, 'anchor': r'inline int read_init\(const uint8_t \*const buf, int offset\)\s*\{', 'sig': 'int RAnsDecoder_read_init(struct RAnsDecoder *self, const uint8_t *const buf, int offset)', 'members': DM},
    {'name': 'RAnsDecoder_read_end', 'file': AH, 'anchor': r'inline int read_end\(\)\s*\{', 'sig': 'int RAnsDecoder_read_end(struct RAnsDecoder *self)', 'members': DM},
    {'name': 'RAnsDecoder_reader_has_error', 'file': AH, 'anchor': r'inline int reader_has_error\(\)\s*\{', 'sig': 'int RAnsDecoder_reader_has_error(struct RAnsDecoder *self)', 'members': DM},
    {'name': 'RAnsDecoder_rans_read', 'file': AH, 'anchor': r'inline int rans_read\(\)\s*\{', 'sig': 'int RAnsDecoder_rans_read(struct RAnsDecoder *self)',
     'subst': [(r'\bfetch_sym\(&sym, rem\)', 'PROPHECY(rem == ghost_rem); RAnsDecoder_fetch_sym(self, &sym, rem)', 1)], 'members': DM,
     'loops': {0: '__CPROVER_assigns(self->ans_.state, self->ans_.buf_offset)\n'
                  '__CPROVER_loop_invariant(0 <= self->ans_.buf_offset && self->ans_.buf_offset <= __CPROVER_loop_entry(self->ans_.buf_offset))\n'
                  '__CPROVER_loop_invariant(self->ans_.state < (uint32_t)l_rans_base * DRACO_ANS_IO_BASE)\n'
                  '__CPROVER_decreases(self->ans_.buf_offset)'}},
    {'name': 'RAnsDecoder_fetch_sym', 'file': AH, 'anchor': r'inline void fetch_sym\(struct rans_dec_sym \*out, uint32_t rem\)\s*\{',
     'sig': 'void RAnsDecoder_fetch_sym(struct RAnsDecoder *self, struct rans_dec_sym *out, uint32_t rem)',
     'subst': [(r'lut_table_\[rem\]', 'self->lut_table_.data[rem]', 1), (r'probability_table_\[symbol\]', 'self->probability_table_.data[symbol]', 2)]},
    {'name': 'RAnsDecoder_rans_build_look_up_table', 'file': AH,
     'anchor': r'inline bool rans_build_look_up_table\(const uint32_t token_probs\[\],\s*uint32_t num_symbols\)\s*\{',
     'sig': 'bool RAnsDecoder_rans_build_look_up_table(struct RAnsDecoder *self, const uint32_t token_probs[], uint32_t num_symbols)',
     'subst': [(r'lut_table_\.resize\(rans_precision\)', 'vec_u32_resize(&self->lut_table_, rans_precision)', 1),
               (r'probability_table_\.resize\(num_symbols\)', 'vec_sym_resize(&self->probability_table_, num_symbols)', 1),
               (r'probability_table_\[i\]', 'self->probability_table_.data[i]', 2), (r'lut_table_\[j\]', 'self->lut_table_.data[j]', 1)],
     'loops': {0: '__CPROVER_assigns(i, cum_prob, act_prob, __CPROVER_object_whole(self->probability_table_.data), __CPROVER_object_whole(self->lut_table_.data))\n'
                  '__CPROVER_loop_invariant(i <= num_symbols && cum_prob == act_prob && cum_prob <= (uint32_t)rans_precision)\n'
                  '__CPROVER_loop_invariant(ghost_sym >= i || self->probability_table_.data[ghost_sym].prob == token_probs[ghost_sym])\n'
                  '__CPROVER_loop_invariant(ghost_rem >= act_prob || (self->lut_table_.data[ghost_rem] < i && '
                  'self->probability_table_.data[self->lut_table_.data[ghost_rem]].cum_prob <= ghost_rem && '
                  'ghost_rem - self->probability_table_.data[self->lut_table_.data[ghost_rem]].cum_prob < self->probability_table_.data[self->lut_table_.data[ghost_rem]].prob))\n'
                  '__CPROVER_decreases(num_symbols - i)',
               1: '__CPROVER_assigns(j, __CPROVER_object_whole(self->lut_table_.data))\n'
                  '__CPROVER_loop_invariant(act_prob <= j && (j <= cum_prob || j == act_prob))\n'
                  '__CPROVER_loop_invariant(ghost_rem >= j || ghost_rem < act_prob || self->lut_table_.data[ghost_rem] == i)\n'
                  '__CPROVER_loop_invariant(ghost_rem >= act_prob || self->lut_table_.data[ghost_rem] == __CPROVER_loop_entry(self->lut_table_.data[ghost_rem < (uint32_t)rans_precision ? ghost_rem : 0]))\n'
                  '__CPROVER_decreases(cum_prob < j ? 0 : cum_prob - j)'}},
]

UNIT = {'name': 'ans', 'structs': structs, 'consts': consts, 'raw': raw, 'functions': functions,
        'pre_struct_text': ['#ifndef VEC_U32_DEFINED\n#define VEC_U32_DEFINED\nstruct vec_u32 { LUT_ELEM_T_FROM_SOURCE *data; size_t size; size_t cap; };  /* std::vector<T> lut_table_, T copied from ans.h */\n#endif'],
        'pre_text': ['typedef uint8_t AnsP8;']}
SRC = 'contracts/ans.c'
DEFS = ['-DDRACO_BACKWARDS_COMPATIBILITY_SUPPORTED']
SHL24_ = (r'arithmetic overflow on signed shl in \(signed int\)mem\[\(signed long int\)3\] << 24',
          'C-vs-C++ difference: uint8_t promoted to int and shifted by 24 may set the sign bit; undefined in C11, defined in C++11 and later (CWG 1457: result representable in unsigned int). Shift-distance check stays enabled.')
JOBS = []
def J(id, entry, props, enforce=None, replace=(), loops=False, unwind=None, unwind_reason=None, **kw):
    kw.setdefault('ignore', [SHL24_])
    j = {'id': 'ans.' + id, 'src': SRC, 'entry': entry, 'enforce': enforce, 'replace': list(replace), 'loops': loops,
         'unwind': unwind, 'unwind_reason': unwind_reason, 'props': props, 'defines': DEFS + ['-DRANS_P=12']}
    j.update(kw); JOBS.append(j); return j

R = ['C17', 'C02']
SHL24 = (r'arithmetic overflow on signed shl in \(signed int\)mem\[\(signed long int\)3\] << 24',
         'C-vs-C++ difference: uint8_t promoted to int and shifted by 24 may set the sign bit; undefined in C11, defined in C++11 and later (CWG 1457: result representable in unsigned int). Shift-distance check stays enabled.')
# fastdiv(x, y) == x / y for x < L*IO: one job per divisor (a 64-bit multiply by a table constant per job; a symbolic divisor does not
# finish on any back end).  Quick tier: a spread of divisors incl. the extremes; thorough tier: all 255.  On every run the real compiled
# function is additionally enumerated exhaustively over the whole contract domain by the co-simulation driver (reported as enumeration).
FD_QUICK = (1, 2, 7, 85, 127, 128, 129, 254, 255)
for y in range(1, 256):
    J('fastdiv.contract.y%d' % y, 'h_enf_fastdiv', ['C17', 'C08'], enforce='fastdiv', defines=DEFS + ['-DFD_Y_LO=%d' % y, '-DFD_Y_HI=%d' % y], timeout=600, cost=3,
      tier=None if y in FD_QUICK else 'thorough', no_vacuity=y not in FD_QUICK)
for n in ['16', '24', '32']:
    J('mem_get_le%s.contract' % n, 'h_enf_mem_get_le' + n, ['C17', 'C02', 'C05'], enforce='mem_get_le' + n)
J('rabs_desc_read.contract', 'h_enf_rabs_desc_read', ['C17', 'C02'], enforce='rabs_desc_read')
J('ans_read_init.contract', 'h_enf_ans_read_init', ['C17', 'C02'], enforce='ans_read_init', replace=['mem_get_le16', 'mem_get_le24'] if False else [])
for lo, hi in [(lo, min(lo + 15, 255)) for lo in range(1, 256, 16)]:   # 16 tiles of 16 probabilities: one per core
    J('rabs.step.p%d_%d' % (lo, hi), 'h_rabs_step', ['C17'], replace=['fastdiv'], defines=DEFS + ['-DP0_LO=%d' % lo, '-DP0_HI=%d' % hi], native=True, timeout=1500, cost=8)
J('ans.header', 'h_ans_header', ['C17', 'C05', 'C06'], native=True)
for P in [12, 13, 14, 15, 16, 17, 18, 19, 20]:
    t = None if P in (12, 20) else 'thorough'
    d = DEFS + ['-DRANS_P=%d' % P]
    J('rans.header.P%d' % P, 'h_rans_header', ['C08', 'C05'], defines=d, native=True, tier=t)
    J('rans.read_init.safe.P%d' % P, 'h_rans_read_init_safe', ['C08', 'C02'], defines=d, tier=t)
    J('rans.fetch_sym.contract.P%d' % P, 'h_enf_RAnsDecoder_fetch_sym', ['C08', 'C02'], enforce='RAnsDecoder_fetch_sym', defines=d, tier=t)
    J('rans.rans_read.contract.P%d' % P, 'h_enf_RAnsDecoder_rans_read', ['C08', 'C02'], enforce='RAnsDecoder_rans_read', replace=['RAnsDecoder_fetch_sym'], loops=True, defines=d, tier=t)
    J('rans.lut.harness.P%d' % P, 'h_rans_lut', ['C08', 'C02', 'C18'], replace=['vec_u32_resize', 'vec_sym_resize'], loops=True, defines=d, tier=t, timeout=1500, cost=8)
    # rans.step: one symbol, all states; division by the VARIABLE prob is what SAT back ends cannot scale (measured: a 2^11-wide prob range does not
    # finish in 25 min on any back end), so the proof is tiled over prob: whole octaves up to 2^5, 16-value tiles above.  Quick tier: the low
    # octaves plus boundary tiles; thorough tier: every tile for P=12 (252 + 7 jobs) and the boundary tiles for the other P.
    tiles = [(1 << k, (1 << (k + 1)) - 1) for k in range(0, 6)]
    allt = [(lo, min(lo + 15, 1 << P)) for lo in range(64, (1 << P) + 1, 16)] if P == 12 else []
    bnd = [(64, 79), (1 << (P - 1), (1 << (P - 1)) + 15), ((1 << P) - 16, (1 << P) - 1), (1 << P, 1 << P)]
    for lo, hi in tiles + bnd + [x for x in allt if x not in bnd]:
        quick = (P in (12, 20)) and ((lo, hi) in tiles or (lo, hi) in bnd)
        J('rans.step.P%d.prob_%d_%d' % (P, lo, hi), 'h_rans_step', ['C08'], defines=d + ['-DRS_PROB_LO=%d' % lo, '-DRS_PROB_HI=%d' % hi], unwind=5,
          unwind_reason='renormalisation loop emits <= 3 bytes (checked by the unwinding assertion)', native=True, tier=None if quick else 'thorough', timeout=900, cost=6, no_vacuity=not quick)
for P in [12, 16, 20]:
    J('fmt.constants.P%d' % P, 'h_fmt_ans_constants', ['C05'], defines=DEFS + ['-DRANS_P=%d' % P], native=True, no_vacuity=True)
TYPES_PRELUDE = ['vec_ans.h', 'core_types.h']
SLICE_PRELUDE = []
NATIVE_SOURCES = ['src/draco/core/divide.cc']
COSIM = True
ASSUMPTIONS = ['RAnsDecoder<P>::read_init reads buf[offset-4] for tag 3 without checking offset >= 4: three readable bytes before buf are an ASSUMED caller-history precondition (true at both call sites)',
               'std::vector resize of lut_table_/probability_table_ modelled by contract-only stubs (size()==n afterwards, storage of the given capacity)',
               'rans_build_look_up_table requires token_probs[k] < 2^22 (what RAnsSymbolDecoder::Create can decode); otherwise cum_prob may wrap (defined behaviour, memory safe, but the LUT consistency postcondition is not claimed)',
               'uabs_* functions of ans.h are unused by the codec and are not under contract']

NATIVE_DEFS = ['-DRANS_P=12']
NATIVE_SLICE_PRE = '#define rans_precision_bits_t RANS_P\nextern uint32_t ghost_rem, ghost_sym; extern int ghost_k;\n'
