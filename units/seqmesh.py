"""Unit 'seqmesh' (C03, C18, C02): MeshSequentialDecoder::DecodeConnectivity / DecodeAndDecompressIndices."""
F = 'src/draco/compression/mesh/mesh_sequential_decoder.cc'
DEPS = ['core']
structs = []
RAWLOOP = ('__CPROVER_assigns(i, self->buffer_->pos_, self->faces_added, self->max_index_p1)\n'
           '__CPROVER_loop_invariant(i <= num_faces && self->faces_added == __CPROVER_loop_entry(self->faces_added) + i)\n'
           '__CPROVER_loop_invariant(self->max_index_p1 <= (self->faces_added == 0 ? 0 : num_points))\n'
           '__CPROVER_loop_invariant(DB_INV(self->buffer_) && self->buffer_->pos_ >= __CPROVER_loop_entry(self->buffer_->pos_))\n'
           '__CPROVER_decreases(num_faces - i)')
INNER = ('__CPROVER_assigns(j, face, self->buffer_->pos_)\n__CPROVER_loop_invariant(0 <= j && j <= 3)\n'
         '__CPROVER_loop_invariant((j < 1 || face.v[0] < num_points) && (j < 2 || face.v[1] < num_points) && (j < 3 || face.v[2] < num_points))\n'
         '__CPROVER_loop_invariant(DB_INV(self->buffer_) && self->buffer_->pos_ >= __CPROVER_loop_entry(self->buffer_->pos_))\n'
         '__CPROVER_decreases(3 - j)')
def face_subst(decl_count):
    return [(r'Mesh::Face face;', 'struct Face face; face.v[0] = 0; face.v[1] = 0; face.v[2] = 0;', decl_count), (r'\bface\[j\]', 'face.v[j]', decl_count),
            (r'mesh\(\)->AddFace\(face\)', 'Mesh_AddFace(self, &face)', decl_count)]
functions = [
    {'name': 'MSD_DecodeConnectivity', 'file': F, 'anchor': r'bool MeshSequentialDecoder::DecodeConnectivity\(\)\s*\{',
     'sig': 'bool MSD_DecodeConnectivity(struct MSD *self)',
     'subst': face_subst(4) + [
         (r'bitstream_version\(\)', 'MSD_bitstream_version(self)', 2),
         (r'buffer\(\)->Decode\(&num_faces\)', 'DecoderBuffer_Decode_u32(self->buffer_, &num_faces)', 1), (r'buffer\(\)->Decode\(&num_points\)', 'DecoderBuffer_Decode_u32(self->buffer_, &num_points)', 1),
         (r'DecodeVarint\(&num_faces, buffer\(\)\)', 'DecodeVarint_u32(&num_faces, self->buffer_)', 1), (r'DecodeVarint\(&num_points, buffer\(\)\)', 'DecodeVarint_u32(&num_points, self->buffer_)', 1),
         (r'buffer\(\)->remaining_size\(\)', 'DecoderBuffer_remaining_size(self->buffer_)', 1),
         (r'buffer\(\)->Decode\(&connectivity_method\)', 'DecoderBuffer_Decode_u8(self->buffer_, &connectivity_method)', 1),
         (r'!DecodeAndDecompressIndices\(num_faces\)', '!MSD_DecodeAndDecompressIndices(self, num_faces, num_points)', 0),   # signature before fix 4d33960 (no point count)
         (r'!DecodeAndDecompressIndices\(', '!MSD_DecodeAndDecompressIndices(self, ', 0),
         (r'uint8_t val;\s*if \(!buffer\(\)->Decode\(&val\)\)', 'uint8_t val;\n          if (!DecoderBuffer_Decode_u8(self->buffer_, &val))', 1),
         (r'uint16_t val;\s*if \(!buffer\(\)->Decode\(&val\)\)', 'uint16_t val;\n          if (!DecoderBuffer_Decode_u16(self->buffer_, &val))', 1),
         (r'uint32_t val;\s*if \(!DecodeVarint\(&val, buffer\(\)\)\)', 'uint32_t val;\n          if (!DecodeVarint_u32(&val, self->buffer_))', 1),
         (r'uint32_t val;\s*if \(!buffer\(\)->Decode\(&val\)\)', 'uint32_t val;\n          if (!DecoderBuffer_Decode_u32(self->buffer_, &val))', 1),
         (r'point_cloud\(\)->set_num_points\(num_points\)', 'PointCloud_set_num_points(self, num_points)', 1)],
     'loops': {0: RAWLOOP, 1: INNER, 2: RAWLOOP, 3: INNER, 4: RAWLOOP, 5: INNER, 6: RAWLOOP, 7: INNER}},
    {'name': 'MSD_DecodeAndDecompressIndices', 'file': F,
     'anchor': r'bool MeshSequentialDecoder::DecodeAndDecompressIndices\(uint32_t num_faces(?:,\s*uint32_t num_points)?\)\s*\{',   # either signature: the contract is the same
     'sig': 'bool MSD_DecodeAndDecompressIndices(struct MSD *self, uint32_t num_faces, uint32_t num_points)',
     'subst': face_subst(1) + [
         (r'std::vector<uint32_t> indices_buffer\(num_faces \* 3\);', 'uint32_t *indices_buffer = alloc_u32_array(self, num_faces * 3);', 1),
         (r'DecodeSymbols\(num_faces \* 3, 1, buffer\(\), indices_buffer\.data\(\)\)', 'DecodeSymbols_stub(num_faces * 3, 1, self->buffer_, indices_buffer)', 1),
         (r'std::numeric_limits<int32_t>::max\(\)', 'INT32_MAX', 1)],
     'loops': {0: '__CPROVER_assigns(i, vertex_index, last_index_value, self->faces_added, self->max_index_p1)\n'
                  '__CPROVER_loop_invariant(i <= num_faces && vertex_index == (int)(3 * i) && last_index_value >= 0)\n'
                  '__CPROVER_loop_invariant(self->faces_added == __CPROVER_loop_entry(self->faces_added) + i)\n'
                  '__CPROVER_loop_invariant(self->max_index_p1 <= (self->faces_added == 0 ? 0 : num_points))\n'
                  '__CPROVER_decreases(num_faces - i)',
               1: '__CPROVER_assigns(j, face, vertex_index, last_index_value)\n__CPROVER_loop_invariant(0 <= j && j <= 3 && vertex_index == (int)(3 * i) + j && last_index_value >= 0)\n'
                  '__CPROVER_loop_invariant((j < 1 || face.v[0] < num_points) && (j < 2 || face.v[1] < num_points) && (j < 3 || face.v[2] < num_points))\n'
                  '__CPROVER_decreases(3 - j)'}},
]
UNIT = {'name': 'seqmesh', 'structs': structs, 'consts': [], 'functions': functions,
        'pre_text': ['struct Face { uint32_t v[3]; }; /* Mesh::Face = std::array<PointIndex,3> */',
                     '/* MeshSequentialDecoder seen through what DecodeConnectivity touches: the stream buffer, the bitstream version, and GHOST\n'
                     '   state of the mesh under construction maintained by the AddFace/set_num_points stubs. */\n'
                     'struct MSD { struct DecoderBuffer *buffer_; uint16_t version; uint32_t faces_added; uint64_t max_index_p1; uint32_t num_points_set; bool num_points_was_set;\n'
                     '             int64_t remaining_at_entry; uint64_t largest_alloc_bytes; };']}
SRC = 'contracts/seqmesh.c'
DEFS = ['-DDRACO_BACKWARDS_COMPATIBILITY_SUPPORTED']
JOBS = []
def J(id, entry, props, enforce=None, replace=(), loops=False, unwind=None, unwind_reason=None, **kw):
    j = {'id': 'seqmesh.' + id, 'src': SRC, 'entry': entry, 'enforce': enforce, 'replace': list(replace), 'loops': loops,
         'unwind': unwind, 'unwind_reason': unwind_reason, 'props': props, 'defines': DEFS}
    j.update(kw); JOBS.append(j); return j
J('DecodeConnectivity.contract', 'h_enf_MSD_DecodeConnectivity', ['C03', 'C18', 'C02'], native_api={'src': 'native/api_seqmesh_badindex.cc', 'args': []}, enforce='MSD_DecodeConnectivity', loops=True,
  replace=['DecoderBuffer_Decode_u8', 'DecoderBuffer_Decode_u16', 'DecoderBuffer_Decode_u32', 'DecodeVarint_u32', 'DecoderBuffer_remaining_size', 'MSD_DecodeAndDecompressIndices',
           'Mesh_AddFace', 'PointCloud_set_num_points', 'MSD_bitstream_version'], timeout=2400, cost=10, cbmc=['--object-bits', '11'], solver='cadical')
J('DecodeAndDecompressIndices.contract', 'h_enf_MSD_DecodeAndDecompressIndices', ['C03', 'C18', 'C02'], native_api={'src': 'native/api_seqmesh_badindex.cc', 'args': []}, enforce='MSD_DecodeAndDecompressIndices', loops=True,
  replace=['alloc_u32_array', 'DecodeSymbols_stub', 'Mesh_AddFace'], timeout=1800, cost=10)
J('fmt.index_width', 'h_seq_index_width', ['C05'], defines=DEFS + ['-DSEQ_INLINE'], unwind=8, unwind_reason='one face (3 corners), varint recursion <= 6; unwinding assertions on', cbmc=['--object-bits', '12'])
TYPES_PRELUDE = ['core_types.h']
COSIM = False
ASSUMPTIONS = ['Mesh::AddFace, PointCloud::set_num_points, PointCloudDecoder::bitstream_version and DecodeSymbols are contract-only stubs: AddFace records the largest stored index + 1 in ghost state, '
               'DecodeSymbols havocs its output array and advances the buffer arbitrarily (any symbols a stream could deliver)',
               'std::vector<uint32_t> indices_buffer(n) is a contract-only allocation stub whose precondition is the C18 bound n*4 <= 4*(remaining_at_entry+1)',
               'the decoder object is reduced to the members DecodeConnectivity touches (struct MSD); class hierarchy (MeshDecoder/PointCloudDecoder) is flattened by listed rewrites']
