"""Unit 'core': zig-zag, varint, DecoderBuffer (+BitDecoder), EncoderBuffer (+BitEncoder).
Sources: src/draco/core/{bit_utils.h,bit_utils.cc,varint_decoding.h,varint_encoding.h,decoder_buffer.h,decoder_buffer.cc,
encoder_buffer.h,encoder_buffer.cc}."""

INTS = {  # suffix -> (signed type, unsigned type)
    '8': ('int8_t', 'uint8_t'), '16': ('int16_t', 'uint16_t'), '32': ('int32_t', 'uint32_t'), '64': ('int64_t', 'uint64_t')}

BU = 'src/draco/core/bit_utils.h'
DB = 'src/draco/core/decoder_buffer.h'
DBC = 'src/draco/core/decoder_buffer.cc'
EB = 'src/draco/core/encoder_buffer.h'
EBC = 'src/draco/core/encoder_buffer.cc'
VD = 'src/draco/core/varint_decoding.h'
VE = 'src/draco/core/varint_encoding.h'

functions = []
for w, (st, ut) in INTS.items():
    functions.append({
        'name': 'S2U_i' + w, 'file': BU,
        'anchor': r'typename std::make_unsigned<IntTypeT>::type ConvertSignedIntToSymbol\(\s*IntTypeT val\)\s*\{',
        'sig': '%s S2U_i%s(%s val)' % (ut, w, st),
        'subst': [(r'typedef typename std::make_unsigned<IntTypeT>::type UnsignedType;', 'typedef %s UnsignedType;' % ut, 1)],
        'tparams': {'IntTypeT': st}})
    functions.append({
        'name': 'U2S_u' + w, 'file': BU,
        'anchor': r'typename std::make_signed<IntTypeT>::type ConvertSymbolToSignedInt\(\s*IntTypeT val\)\s*\{',
        'sig': '%s U2S_u%s(%s val)' % (st, w, ut),
        'subst': [(r'typedef typename std::make_signed<IntTypeT>::type SignedType;', 'typedef %s SignedType;' % st, 1)],
        'tparams': {'IntTypeT': ut}})

functions.append({'name': 'MostSignificantBit', 'file': BU, 'anchor': r'inline int MostSignificantBit\(uint32_t n\)\s*\{', 'sig': 'int MostSignificantBit(uint32_t n)'})
functions.append({'name': 'CountOneBits32', 'file': BU, 'anchor': r'inline int CountOneBits32\(uint32_t n\)\s*\{', 'sig': 'int CountOneBits32(uint32_t n)'})
functions.append({'name': 'ReverseBits32', 'file': BU, 'anchor': r'inline uint32_t ReverseBits32\(uint32_t n\)\s*\{', 'sig': 'uint32_t ReverseBits32(uint32_t n)'})
functions.append({'name': 'CopyBits32', 'file': BU, 'anchor': r'inline void CopyBits32\(uint32_t \*dst, int dst_offset, uint32_t src,\s*int src_offset, int nbits\)\s*\{',
                  'sig': 'void CopyBits32(uint32_t *dst, int dst_offset, uint32_t src, int src_offset, int nbits)'})
functions.append({
    'name': 'ConvertSignedIntsToSymbols', 'file': 'src/draco/core/bit_utils.cc',
    'anchor': r'void ConvertSignedIntsToSymbols\(const int32_t \*in, int in_values,\s*uint32_t \*out\)\s*\{',
    'sig': 'void ConvertSignedIntsToSymbols(const int32_t *in, int in_values, uint32_t *out)',
    'subst': [(r'\bConvertSignedIntToSymbol\(', 'S2U_i32(', 1)],
    'loops': {0: '__CPROVER_assigns(i, __CPROVER_object_whole(out))\n__CPROVER_loop_invariant(0 <= i && i <= in_values)\n'
                 '__CPROVER_loop_invariant(ghost_k < 0 || ghost_k >= i || out[ghost_k] == ZZ_S2U32(in[ghost_k]))\n__CPROVER_decreases(in_values - i)'}})
functions.append({
    'name': 'ConvertSymbolsToSignedInts', 'file': 'src/draco/core/bit_utils.cc',
    'anchor': r'void ConvertSymbolsToSignedInts\(const uint32_t \*in, int in_values,\s*int32_t \*out\)\s*\{',
    'sig': 'void ConvertSymbolsToSignedInts(const uint32_t *in, int in_values, int32_t *out)',
    'subst': [(r'\bConvertSymbolToSignedInt\(', 'U2S_u32(', 1)],
    'loops': {0: '__CPROVER_assigns(i, __CPROVER_object_whole(out))\n__CPROVER_loop_invariant(0 <= i && i <= in_values)\n'
                 '__CPROVER_loop_invariant(ghost_k < 0 || ghost_k >= i || out[ghost_k] == ZZ_U2S32(in[ghost_k]))\n__CPROVER_decreases(in_values - i)'}})

# ---- DecoderBuffer -------------------------------------------------------------------------
DBM = ['data_', 'data_size_', 'pos_', 'bit_decoder_', 'bit_mode_', 'bitstream_version_']
BDM = ['bit_buffer_', 'bit_buffer_end_', 'bit_offset_']
structs = [
    {'struct': 'BitDecoder', 'file': DB, 'fields': [
        ('const uint8_t *bit_buffer_', r'const uint8_t \*bit_buffer_;'),
        ('const uint8_t *bit_buffer_end_', r'const uint8_t \*bit_buffer_end_;'),
        ('size_t bit_offset_', r'size_t bit_offset_;')]},
    {'struct': 'DecoderBuffer', 'file': DB, 'fields': [
        ('const char *data_', r'const char \*data_;'),
        ('int64_t data_size_', r'int64_t data_size_;'),
        ('int64_t pos_', r'int64_t pos_;'),
        ('struct BitDecoder bit_decoder_', r'BitDecoder bit_decoder_;'),
        ('bool bit_mode_', r'bool bit_mode_;'),
        ('uint16_t bitstream_version_', r'uint16_t bitstream_version_;')]},
]
consts = [
    {'const': 'DRACO_BITSTREAM_VERSION(MAJOR, MINOR)', 'file': 'src/draco/core/draco_version.h' if False else 'src/draco/core/macros.h',
     'regex': r'#define DRACO_BITSTREAM_VERSION\(MAJOR, MINOR\)\s*\\?\s*(\(\(static_cast<uint16_t>\(MAJOR\) << 8\) \| MINOR\))'},
]

SCALARS = {'u8': 'uint8_t', 'u16': 'uint16_t', 'u32': 'uint32_t', 'u64': 'uint64_t', 'i8': 'int8_t', 'i16': 'int16_t', 'i32': 'int32_t', 'i64': 'int64_t', 'f32': 'float'}
for sfx, ty in SCALARS.items():
    functions.append({
        'name': 'DecoderBuffer_Peek_' + sfx, 'file': DB,
        'anchor': r'template <typename T>\s*bool Peek\(T \*out_val\)\s*\{',
        'sig': 'bool DecoderBuffer_Peek_%s(struct DecoderBuffer *self, %s *out_val)' % (sfx, ty),
        'tparams': {'T': ty}, 'members': DBM})
    functions.append({
        'name': 'DecoderBuffer_Decode_' + sfx, 'file': DB,
        'anchor': r'template <typename T>\s*bool Decode\(T \*out_val\)\s*\{',
        'sig': 'bool DecoderBuffer_Decode_%s(struct DecoderBuffer *self, %s *out_val)' % (sfx, ty),
        'subst': [(r'\bPeek\(out_val\)', 'DecoderBuffer_Peek_%s(self, out_val)' % sfx, 1)],
        'tparams': {'T': ty}, 'members': DBM})
functions += [
    {'name': 'DecoderBuffer_DecodeBytes', 'file': DB,
     'anchor': r'bool Decode\(void \*out_data, size_t size_to_decode\)\s*\{',
     'sig': 'bool DecoderBuffer_DecodeBytes(struct DecoderBuffer *self, void *out_data, size_t size_to_decode)', 'members': DBM},
    {'name': 'DecoderBuffer_PeekBytes', 'file': DB,
     'anchor': r'bool Peek\(void \*out_data, size_t size_to_peek\)\s*\{',
     'sig': 'bool DecoderBuffer_PeekBytes(struct DecoderBuffer *self, void *out_data, size_t size_to_peek)', 'members': DBM},
    {'name': 'DecoderBuffer_Advance', 'file': DB, 'anchor': r'void Advance\(int64_t bytes\)\s*\{',
     'sig': 'void DecoderBuffer_Advance(struct DecoderBuffer *self, int64_t bytes)', 'members': DBM},
    {'name': 'DecoderBuffer_data_head', 'file': DB, 'anchor': r'const char \*data_head\(\) const\s*\{',
     'sig': 'const char *DecoderBuffer_data_head(const struct DecoderBuffer *self)', 'members': DBM},
    {'name': 'DecoderBuffer_remaining_size', 'file': DB, 'anchor': r'int64_t remaining_size\(\) const\s*\{',
     'sig': 'int64_t DecoderBuffer_remaining_size(const struct DecoderBuffer *self)', 'members': DBM},
    {'name': 'DecoderBuffer_bit_decoder_active', 'file': DB, 'anchor': r'bool bit_decoder_active\(\) const\s*\{',
     'sig': 'bool DecoderBuffer_bit_decoder_active(const struct DecoderBuffer *self)', 'members': DBM},
    {'name': 'DecoderBuffer_Init3', 'file': DBC,
     'anchor': r'void DecoderBuffer::Init\(const char \*data, size_t data_size, uint16_t version\)\s*\{',
     'sig': 'void DecoderBuffer_Init3(struct DecoderBuffer *self, const char *data, size_t data_size, uint16_t version)', 'members': DBM},
    {'name': 'DecoderBuffer_DecodeLeastSignificantBits32', 'file': DB,
     'anchor': r'bool DecodeLeastSignificantBits32\(uint32_t nbits, uint32_t \*out_value\)\s*\{',
     'sig': 'bool DecoderBuffer_DecodeLeastSignificantBits32(struct DecoderBuffer *self, uint32_t nbits, uint32_t *out_value)',
     'subst': [(r'\bbit_decoder_active\(\)', 'DecoderBuffer_bit_decoder_active(self)', 1),
               (r'\bbit_decoder_\.GetBits\(nbits, out_value\)', 'BitDecoder_GetBits(&self->bit_decoder_, nbits, out_value)', 1)],
     'members': DBM},
    {'name': 'DecoderBuffer_StartBitDecoding', 'file': DBC,
     'anchor': r'bool DecoderBuffer::StartBitDecoding\(bool decode_size, uint64_t \*out_size\)\s*\{',
     'sig': 'bool DecoderBuffer_StartBitDecoding(struct DecoderBuffer *self, bool decode_size, uint64_t *out_size)',
     'subst': [(r'!Decode\(out_size\)', '!DecoderBuffer_Decode_u64(self, out_size)', 1),
               (r'!DecodeVarint\(out_size, this\)', '!DecodeVarint_u64(out_size, self)', 1),
               (r'bit_decoder_\.reset\(data_head\(\), remaining_size\(\)\)', 'BitDecoder_reset(&self->bit_decoder_, DecoderBuffer_data_head(self), DecoderBuffer_remaining_size(self))', 1)],
     'members': DBM},
    {'name': 'DecoderBuffer_EndBitDecoding', 'file': DBC,
     'anchor': r'void DecoderBuffer::EndBitDecoding\(\)\s*\{',
     'sig': 'void DecoderBuffer_EndBitDecoding(struct DecoderBuffer *self)',
     'subst': [(r'bit_decoder_\.BitsDecoded\(\)', 'BitDecoder_BitsDecoded(&self->bit_decoder_)', 1)],
     'members': DBM},
    {'name': 'BitDecoder_reset', 'file': DB, 'anchor': r'inline void reset\(const void \*b, size_t s\)\s*\{',
     'sig': 'void BitDecoder_reset(struct BitDecoder *self, const void *b, size_t s)', 'members': BDM},
    {'name': 'BitDecoder_BitsDecoded', 'file': DB, 'anchor': r'inline uint64_t BitsDecoded\(\) const\s*\{',
     'sig': 'uint64_t BitDecoder_BitsDecoded(const struct BitDecoder *self)', 'members': BDM},
    {'name': 'BitDecoder_AvailBits', 'file': DB, 'anchor': r'inline uint64_t AvailBits\(\) const\s*\{',
     'sig': 'uint64_t BitDecoder_AvailBits(const struct BitDecoder *self)', 'members': BDM},
    {'name': 'BitDecoder_EnsureBits', 'file': DB, 'anchor': r'inline uint32_t EnsureBits\(int k\)\s*\{',
     'sig': 'uint32_t BitDecoder_EnsureBits(struct BitDecoder *self, int k)',
     'subst': [(r'\bPeekBit\(i\)', 'BitDecoder_PeekBit(self, i)', 1)], 'members': BDM,
     'loops': {0: '__CPROVER_assigns(i, buf)\n__CPROVER_loop_invariant(0 <= i && i <= k)\n'
                  '__CPROVER_loop_invariant(i >= 32 || (buf >> i) == 0)\n'
                  '__CPROVER_loop_invariant(ghost_bit >= (uint32_t)i || ((buf >> ghost_bit) & 1) == BD_BIT(self, self->bit_offset_ + ghost_bit))\n'
                  '__CPROVER_decreases(k - i)'}},
    {'name': 'BitDecoder_ConsumeBits', 'file': DB, 'anchor': r'inline void ConsumeBits\(int k\)\s*\{',
     'sig': 'void BitDecoder_ConsumeBits(struct BitDecoder *self, int k)', 'members': BDM},
    {'name': 'BitDecoder_GetBits', 'file': DB, 'anchor': r'inline bool GetBits\(uint32_t nbits, uint32_t \*x\)\s*\{',
     'sig': 'bool BitDecoder_GetBits(struct BitDecoder *self, uint32_t nbits, uint32_t *x)',
     'subst': [(r'\bGetBit\(\)', 'BitDecoder_GetBit(self)', 1)], 'members': BDM,
     'loops': {0: '__CPROVER_assigns(bit, value, self->bit_offset_)\n__CPROVER_loop_invariant(bit <= nbits)\n'
                  '__CPROVER_loop_invariant(self->bit_offset_ == __CPROVER_loop_entry(self->bit_offset_) + BD_MIN(bit, BD_AVAIL(__CPROVER_loop_entry(self->bit_offset_))))\n'
                  '__CPROVER_loop_invariant(bit >= 32 || (value >> bit) == 0)\n'
                  '__CPROVER_loop_invariant(ghost_bit >= bit || ((value >> ghost_bit) & 1) == BD_BIT(self, __CPROVER_loop_entry(self->bit_offset_) + ghost_bit))\n'
                  '__CPROVER_decreases(nbits - bit)'}},
    {'name': 'BitDecoder_GetBit', 'file': DB, 'anchor': r'inline int GetBit\(\)\s*\{',
     'sig': 'int BitDecoder_GetBit(struct BitDecoder *self)', 'members': BDM},
    {'name': 'BitDecoder_PeekBit', 'file': DB, 'anchor': r'inline int PeekBit\(int offset\)\s*\{',
     'sig': 'int BitDecoder_PeekBit(struct BitDecoder *self, int offset)', 'members': BDM},
]

# ---- varint ----------------------------------------------------------------------------------
VTYPES = {'u8': ('uint8_t', 'uint8_t', 1, '8'), 'u16': ('uint16_t', 'uint16_t', 1, '16'), 'u32': ('uint32_t', 'uint32_t', 1, '32'), 'u64': ('uint64_t', 'uint64_t', 1, '64'),
          'i8': ('int8_t', 'uint8_t', 0, '8'), 'i16': ('int16_t', 'uint16_t', 0, '16'), 'i32': ('int32_t', 'uint32_t', 0, '32'), 'i64': ('int64_t', 'uint64_t', 0, '64')}
for sfx, (ty, uty, isu, w) in VTYPES.items():
    if isu:
        functions.append({
            'name': 'DecodeVarintUnsigned_' + sfx, 'file': VD,
            'anchor': r'template <typename IntTypeT>\s*bool DecodeVarintUnsigned\(int depth, IntTypeT \*out_val, DecoderBuffer \*buffer\)\s*\{',
            'sig': 'bool DecodeVarintUnsigned_%s(int depth, %s *out_val, struct DecoderBuffer *buffer)' % (sfx, ty),
            'subst': [(r'buffer->Decode\(&in\)', 'DecoderBuffer_Decode_u8(buffer, &in)', 1),
                      (r'DecodeVarintUnsigned<IntTypeT>\(', 'RECURSE(DecodeVarintUnsigned_%s)(' % sfx, 1)],
            'tparams': {'IntTypeT': ty}})
    functions.append({
        'name': 'DecodeVarint_' + sfx, 'file': VD,
        'anchor': r'template <typename IntTypeT>\s*bool DecodeVarint\(IntTypeT \*out_val, DecoderBuffer \*buffer\)\s*\{',
        'sig': 'bool DecodeVarint_%s(%s *out_val, struct DecoderBuffer *buffer)' % (sfx, ty),
        'subst': [(r'std::is_unsigned<IntTypeT>::value', str(isu), 1),
                  (r'DecodeVarintUnsigned<IntTypeT>\(1, out_val, buffer\)', 'DecodeVarintUnsigned_u%s(1, (%s *)out_val, buffer)' % (w, uty), 1),
                  (r'typename std::make_unsigned<IntTypeT>::type symbol;', '%s symbol;' % uty, 1),
                  (r'DecodeVarintUnsigned\(1, &symbol, buffer\)', 'DecodeVarintUnsigned_u%s(1, &symbol, buffer)' % w, 1),
                  (r'ConvertSymbolToSignedInt\(symbol\)', 'U2S_u%s(symbol)' % w, 1)],
        'tparams': {'IntTypeT': ty}})
    functions.append({
        'name': 'EncodeVarint_' + sfx, 'file': VE,
        'anchor': r'template <typename IntTypeT>\s*bool EncodeVarint\(IntTypeT val, EncoderBuffer \*out_buffer\)\s*\{',
        'sig': 'bool EncodeVarint_%s(%s val, struct EncoderBuffer *out_buffer)' % (sfx, ty),
        'subst': [(r'std::is_unsigned<IntTypeT>::value', str(isu), 1),
                  (r'out_buffer->Encode\(out\)', 'EncoderBuffer_Encode_u8(out_buffer, &out)', 2),
                  (r'EncodeVarint<IntTypeT>\(val >> 7, out_buffer\)', 'EncodeVarint_%s(val >> 7, out_buffer)' % sfx, 1),
                  (r'const typename std::make_unsigned<IntTypeT>::type symbol =\s*ConvertSignedIntToSymbol\(val\);',
                   'const %s symbol = S2U_i%s((%s)val);' % (uty, w, 'int%s_t' % w), 1),
                  (r'EncodeVarint\(symbol, out_buffer\)', 'EncodeVarint_u%s(symbol, out_buffer)' % w, 1)],
        'tparams': {'IntTypeT': ty}})

# ---- EncoderBuffer ---------------------------------------------------------------------------
EBM = ['buffer_', 'bit_encoder_', 'bit_encoder_reserved_bytes_', 'encode_bit_sequence_size_']
BEM = ['bit_buffer_', 'bit_offset_']
structs += [
    {'struct': 'BitEncoder', 'file': EB, 'fields': [
        ('char *bit_buffer_', r'char \*bit_buffer_;'), ('size_t bit_offset_', r'size_t bit_offset_;')]},
    {'struct': 'EncoderBuffer', 'file': EB, 'fields': [
        ('struct vec_char buffer_', r'std::vector<char> buffer_;'),
        ('struct BitEncoder *bit_encoder_', r'std::unique_ptr<BitEncoder> bit_encoder_;'),
        ('int64_t bit_encoder_reserved_bytes_', r'int64_t bit_encoder_reserved_bytes_;'),
        ('bool encode_bit_sequence_size_', r'bool encode_bit_sequence_size_;'),
        ('struct BitEncoder bit_encoder_storage', r'std::unique_ptr<BitEncoder> bit_encoder_;')]},
]
for sfx, ty in SCALARS.items():
    functions.append({
        'name': 'EncoderBuffer_Encode_' + sfx, 'file': EB,
        'anchor': r'template <typename T>\s*bool Encode\(const T &data\)\s*\{',
        'sig': 'bool EncoderBuffer_Encode_%s(struct EncoderBuffer *self, const %s *data)' % (sfx, ty),
        'subst': [(r'\bbit_encoder_active\(\)', 'EncoderBuffer_bit_encoder_active(self)', 1),
                  (r'\(&data\)', '(data)', 1),
                  (r'buffer_\.insert\(buffer_\.end\(\), src_data, src_data \+ sizeof\(T\)\)', 'vec_char_append(&self->buffer_, src_data, sizeof(T))', 1)],
        'tparams': {'T': ty}, 'members': EBM})
functions += [
    {'name': 'EncoderBuffer_EncodeBytes', 'file': EB,
     'anchor': r'bool Encode\(const void \*data, size_t data_size\)\s*\{',
     'sig': 'bool EncoderBuffer_EncodeBytes(struct EncoderBuffer *self, const void *data, size_t data_size)',
     'subst': [(r'\bbit_encoder_active\(\)', 'EncoderBuffer_bit_encoder_active(self)', 1),
               (r'buffer_\.insert\(buffer_\.end\(\), src_data, src_data \+ data_size\)', 'vec_char_append(&self->buffer_, src_data, data_size)', 1)],
     'members': EBM},
    {'name': 'EncoderBuffer_bit_encoder_active', 'file': EB, 'anchor': r'bool bit_encoder_active\(\) const\s*\{',
     'sig': 'bool EncoderBuffer_bit_encoder_active(const struct EncoderBuffer *self)', 'members': EBM},
    {'name': 'EncoderBuffer_EncodeLeastSignificantBits32', 'file': EB,
     'anchor': r'bool EncodeLeastSignificantBits32\(int nbits, uint32_t value\)\s*\{',
     'sig': 'bool EncoderBuffer_EncodeLeastSignificantBits32(struct EncoderBuffer *self, int nbits, uint32_t value)',
     'subst': [(r'\bbit_encoder_active\(\)', 'EncoderBuffer_bit_encoder_active(self)', 1),
               (r'bit_encoder_->PutBits\(value, nbits\)', 'BitEncoder_PutBits(self->bit_encoder_, value, nbits)', 1)],
     'members': EBM},
    {'name': 'BitEncoder_PutBits', 'file': EB, 'anchor': r'void PutBits\(uint32_t data, int32_t nbits\)\s*\{',
     'sig': 'void BitEncoder_PutBits(struct BitEncoder *self, uint32_t data, int32_t nbits)',
     'subst': [(r'\bPutBit\(', 'BitEncoder_PutBit(self, ', 1)], 'members': BEM, 'drop_dcheck': False},
    {'name': 'BitEncoder_PutBit', 'file': EB, 'anchor': r'void PutBit\(uint8_t value\)\s*\{',
     'sig': 'void BitEncoder_PutBit(struct BitEncoder *self, uint8_t value)', 'members': BEM},
    {'name': 'BitEncoder_Bits', 'file': EB, 'anchor': r'uint64_t Bits\(\) const\s*\{',
     'sig': 'uint64_t BitEncoder_Bits(const struct BitEncoder *self)', 'members': BEM},
    {'name': 'EncoderBuffer_StartBitEncoding', 'file': EBC,
     'anchor': r'bool EncoderBuffer::StartBitEncoding\(int64_t required_bits, bool encode_size\)\s*\{',
     'sig': 'bool EncoderBuffer_StartBitEncoding(struct EncoderBuffer *self, int64_t required_bits, bool encode_size)',
     'subst': [(r'\bbit_encoder_active\(\)', 'EncoderBuffer_bit_encoder_active(self)', 1),
               (r'buffer_\.size\(\)', 'vec_char_size(&self->buffer_)', 1),
               (r'buffer_\.resize\(', 'vec_char_resize(&self->buffer_, ', 1),
               (r'buffer_\.data\(\)', 'vec_char_data(&self->buffer_)', 1),
               (r'bit_encoder_ =\s*std::unique_ptr<BitEncoder>\(new BitEncoder\(const_cast<char \*>\(data\)\)\);',
                'self->bit_encoder_ = BitEncoder_construct(&self->bit_encoder_storage, (char *)data);', 1)],
     'members': EBM},
    {'name': 'EncoderBuffer_EndBitEncoding', 'file': EBC,
     'anchor': r'void EncoderBuffer::EndBitEncoding\(\)\s*\{',
     'sig': 'void EncoderBuffer_EndBitEncoding(struct EncoderBuffer *self)',
     'subst': [(r'\bbit_encoder_active\(\)', 'EncoderBuffer_bit_encoder_active(self)', 1),
               (r'bit_encoder_->Bits\(\)', 'BitEncoder_Bits(self->bit_encoder_)', 1),
               (r'bit_encoder_->Flush\(0\);', '', 1),
               (r'const_cast<char \*>\(data\(\) \+ size\(\)\)', '(vec_char_data(&self->buffer_) + vec_char_size(&self->buffer_))', 1),
               (r'EncoderBuffer var_size_buffer;', 'struct EncoderBuffer var_size_buffer; EncoderBuffer_construct_local(&var_size_buffer);', 1),
               (r'EncodeVarint\(encoded_bytes, &var_size_buffer\)', 'EncodeVarint_u64(encoded_bytes, &var_size_buffer)', 1),
               (r'var_size_buffer\.size\(\)', 'vec_char_size(&var_size_buffer.buffer_)', 1),
               (r'var_size_buffer\.data\(\)', 'vec_char_data(&var_size_buffer.buffer_)', 1),
               (r'buffer_\.resize\(buffer_\.size\(\) -', 'vec_char_resize(&self->buffer_, vec_char_size(&self->buffer_) -', 1)],
     'members': EBM},
]

UNIT = {'name': 'core', 'structs': structs, 'consts': consts, 'functions': functions,
        'pre_text': []}

# ---------------------------------------------------------------------------------------------
SRC = 'contracts/core.c'
DEFS = ['-DDRACO_BACKWARDS_COMPATIBILITY_SUPPORTED']
JOBS = []
def J(id, entry, props, enforce=None, replace=(), loops=False, unwind=None, unwind_reason=None, **kw):
    j = {'id': 'core.' + id, 'src': SRC, 'entry': entry, 'enforce': enforce, 'replace': list(replace), 'loops': loops,
         'unwind': unwind, 'unwind_reason': unwind_reason, 'props': props, 'defines': DEFS}
    j.update(kw); JOBS.append(j); return j

for w in ['8', '16', '32', '64']:
    J('zigzag.S2U_i%s.contract' % w, 'h_enf_S2U_i' + w, ['C17', 'C05', 'C02'], enforce='S2U_i' + w, native=True)
    J('zigzag.U2S_u%s.contract' % w, 'h_enf_U2S_u' + w, ['C17', 'C05', 'C02'], enforce='U2S_u' + w, native=True)
    J('zigzag.inv1.%s' % w, 'h_zz_inv1_' + w, ['C17'], replace=['S2U_i' + w, 'U2S_u' + w])
    J('zigzag.inv2.%s' % w, 'h_zz_inv2_' + w, ['C17'], replace=['S2U_i' + w, 'U2S_u' + w])
J('zigzag.array.S2U.contract', 'h_enf_ConvertSignedIntsToSymbols', ['C17', 'C02'], enforce='ConvertSignedIntsToSymbols', replace=['S2U_i32'], loops=True)
J('zigzag.array.U2S.contract', 'h_enf_ConvertSymbolsToSignedInts', ['C17', 'C02'], enforce='ConvertSymbolsToSignedInts', replace=['U2S_u32'], loops=True)
for sfx in ['u8', 'u16', 'u32', 'u64', 'i8', 'i16', 'i32', 'i64']:
    J('decbuf.Peek_%s.contract' % sfx, 'h_enf_DecoderBuffer_Peek_' + sfx, ['C17', 'C02'], enforce='DecoderBuffer_Peek_' + sfx)
    J('decbuf.Decode_%s.contract' % sfx, 'h_enf_DecoderBuffer_Decode_' + sfx, ['C17', 'C02'], enforce='DecoderBuffer_Decode_' + sfx, replace=['DecoderBuffer_Peek_' + sfx])

VW = {'u8': '8', 'u16': '16', 'u32': '32', 'u64': '64', 'i8': '8', 'i16': '16', 'i32': '32', 'i64': '64'}
for w in ['8', '16', '32', '64']:
    J('varint.DecodeVarintUnsigned_u%s.contract' % w, 'h_enf_DecodeVarintUnsigned_u' + w, ['C02', 'C17'], enforce='DecodeVarintUnsigned_u' + w,
      replace=['DecodeVarintUnsigned_u' + w + '_rec', 'DecoderBuffer_Decode_u8'], defines=DEFS + ['-DINDUCTIVE'])
for sfx, w in VW.items():
    J('varint.DecodeVarint_%s.contract' % sfx, 'h_enf_DecodeVarint_' + sfx, ['C02', 'C17'], enforce='DecodeVarint_' + sfx,
      replace=['DecodeVarintUnsigned_u' + w, 'U2S_u' + w])
    J('varint.rt.%s' % sfx, 'h_varint_rt_' + sfx, ['C17'], unwind=18, unwind_reason='recursion depth <= ceil(bits/7)+1 <= 11, vector-model loops <= 16 bytes; unwinding assertions on', native=True)

NATIVE_SOURCES = ['src/draco/core/bit_utils.cc', 'src/draco/core/decoder_buffer.cc', 'src/draco/core/encoder_buffer.cc']
COSIM = True
ASSUMPTIONS = ['std::vector<char> is modelled by stubs/vec.h (fixed capacity, zero-initialising resize, append): libstdc++ is assumed to behave so; reallocation/iterator invalidation is not modelled',
               'DecoderBuffer representation invariant 0<=pos_<=data_size_<=2^40 and data_ valid for data_size_ bytes is a precondition (established by Init, preserved by every function under contract; Advance/StartDecodingFrom callers are outside the contract layer)',
               'termination of the recursive varint functions: by the depth bound argued on paper from the inductive contract (depth increases by 1 per call, calls stop at max_depth) and re-checked by the unwinding assertion in the round-trip jobs',
               'induction over bit/byte SEQUENCES from the per-operation lemmas is a paper argument']
SLICE_PRELUDE = ['core_helpers.h']

J('bitdec.GetBit.contract', 'h_enf_BitDecoder_GetBit', ['C17', 'C02'], enforce='BitDecoder_GetBit')
J('bitdec.PeekBit.contract', 'h_enf_BitDecoder_PeekBit', ['C17', 'C02'], enforce='BitDecoder_PeekBit')
SHL31 = (r'arithmetic overflow on signed shl in return_value_BitDecoder_(Get|Peek)Bit << (bit|i)',
         'C-vs-C++ difference: `bit_value << 31` with bit_value in {0,1} (guaranteed by the callee contract) shifts into the sign bit; undefined in C11, '
         'defined in C++11 and later (CWG 1457). The shift-distance obligation (undefined-shift) stays enabled.')
J('bitdec.GetBits.contract', 'h_enf_BitDecoder_GetBits', ['C17', 'C02'], enforce='BitDecoder_GetBits', replace=['BitDecoder_GetBit'], loops=True, ignore=[SHL31])
J('bitdec.AvailBits.contract', 'h_enf_BitDecoder_AvailBits', ['C17', 'C02'], enforce='BitDecoder_AvailBits')
J('bitdec.BitsDecoded.contract', 'h_enf_BitDecoder_BitsDecoded', ['C17', 'C02'], enforce='BitDecoder_BitsDecoded')
J('bitdec.reset.contract', 'h_enf_BitDecoder_reset', ['C17', 'C02'], enforce='BitDecoder_reset')
J('bitdec.EnsureBits.contract', 'h_enf_BitDecoder_EnsureBits', ['C17', 'C02'], enforce='BitDecoder_EnsureBits', replace=['BitDecoder_PeekBit'], loops=True, ignore=[SHL31])
J('control.ghosts', 'h_ghost_control', ['C17', 'C02', 'C05', 'C06', 'C18'], expect_fail=[r'control\.ghosts_are_zero'], no_vacuity=True)
J('decbuf.DecodeBytes.contract', 'h_enf_DecoderBuffer_DecodeBytes', ['C17', 'C02', 'C06'], enforce='DecoderBuffer_DecodeBytes')
J('decbuf.PeekBytes.contract', 'h_enf_DecoderBuffer_PeekBytes', ['C17', 'C02'], enforce='DecoderBuffer_PeekBytes')
J('decbuf.StartBitDecoding.contract', 'h_enf_DecoderBuffer_StartBitDecoding', ['C17', 'C02', 'C05', 'C06'], enforce='DecoderBuffer_StartBitDecoding',
  replace=['DecoderBuffer_Decode_u64', 'DecodeVarint_u64', 'BitDecoder_reset'])
J('decbuf.EndBitDecoding.contract', 'h_enf_DecoderBuffer_EndBitDecoding', ['C17', 'C02', 'C06'], enforce='DecoderBuffer_EndBitDecoding', replace=['BitDecoder_BitsDecoded'])
J('decbuf.DecodeLeastSignificantBits32.contract', 'h_enf_DecoderBuffer_DecodeLeastSignificantBits32', ['C17', 'C02'], enforce='DecoderBuffer_DecodeLeastSignificantBits32', replace=['BitDecoder_GetBits'])
J('bits.rt', 'h_bits_rt', ['C17', 'C06'], unwind=34, unwind_reason='PutBits/GetBits loops run nbits <= 32 times; unwinding assertions on', native=True, ignore=[SHL31])
for sfx in ['u8', 'u16', 'u32', 'u64', 'i8', 'i16', 'i32', 'i64']:
    J('encbuf.Encode_%s.contract' % sfx, 'h_enf_EncoderBuffer_Encode_' + sfx, ['C17', 'C05'], enforce='EncoderBuffer_Encode_' + sfx, unwind=10,
      unwind_reason='vector-model append loop copies sizeof(T) <= 8 bytes; unwinding assertion on')
J('bitseq.rt', 'h_bitseq_rt', ['C17', 'C06'], unwind=42, unwind_reason='bounded: prefix = 3 bytes, payload <= 40 bits (one 32-bit and one 8-bit write), 40-byte vector model', native=True, ignore=[SHL31],
  cbmc=['--object-bits', '10'], defines=DEFS + ['-DBITSEQ_PREFIX=3', '-DBITSEQ_N2MAX=8'], timeout=1500, cost=10)
J('bitutil.MostSignificantBit.contract', 'h_enf_MostSignificantBit', ['C17', 'C08', 'C05'], enforce='MostSignificantBit')
J('bitutil.CountOneBits32.contract', 'h_enf_CountOneBits32', ['C17'], enforce='CountOneBits32', unwind=34, unwind_reason='spec loop over 32 bit positions')
J('bitutil.ReverseBits32.contract', 'h_enf_ReverseBits32', ['C17'], enforce='ReverseBits32')
J('bitutil.CopyBits32.contract', 'h_enf_CopyBits32', ['C17'], enforce='CopyBits32')
for f in ['remaining_size', 'bit_decoder_active', 'Advance']:
    J('decbuf.%s.contract' % f, 'h_enf_DecoderBuffer_' + f, ['C17', 'C02'], enforce='DecoderBuffer_' + f)
J('encbuf.EncodeBytes.contract', 'h_enf_EncoderBuffer_EncodeBytes', ['C17', 'C11'], enforce='EncoderBuffer_EncodeBytes', replace=['vec_char_append'])
J('fmt.varint_layout', 'h_fmt_varint_layout', ['C05', 'C17'], unwind=18, unwind_reason='recursion depth <= 6, 16-byte vector model', native=True)
J('fmt.bitseq_gate', 'h_fmt_bitseq_gate', ['C05'], unwind=14, unwind_reason='varint recursion <= 11, 12-byte buffer', native=True)
