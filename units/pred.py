"""Unit 'pred': prediction-correction transforms (C16): wrap transform and canonicalized octahedral transform,
OctahedronToolBox integer functions."""
PS = 'src/draco/compression/attributes/prediction_schemes/'
WB = PS + 'prediction_scheme_wrap_transform_base.h'
WE = PS + 'prediction_scheme_wrap_encoding_transform.h'
WD = PS + 'prediction_scheme_wrap_decoding_transform.h'
OB = PS + 'prediction_scheme_normal_octahedron_transform_base.h'
CB = PS + 'prediction_scheme_normal_octahedron_canonicalized_transform_base.h'
CE = PS + 'prediction_scheme_normal_octahedron_canonicalized_encoding_transform.h'
CD = PS + 'prediction_scheme_normal_octahedron_canonicalized_decoding_transform.h'
NU = 'src/draco/compression/attributes/normal_compression_utils.h'
MU = 'src/draco/core/math_utils.h'
DEPS = ['core']

WM = ['num_components_', 'min_value_', 'max_value_', 'max_dif_', 'max_correction_', 'min_correction_', 'clamped_value_']
structs = [
    {'struct': 'Wrap', 'file': WB, 'fields': [
        ('int num_components_', r'int num_components_;'), ('int32_t min_value_', r'DataTypeT min_value_;'), ('int32_t max_value_', r'DataTypeT max_value_;'),
        ('int32_t max_dif_', r'DataTypeT max_dif_;'), ('int32_t max_correction_', r'DataTypeT max_correction_;'), ('int32_t min_correction_', r'DataTypeT min_correction_;'),
        ('struct vec_i32 clamped_value_', r'mutable std::vector<DataTypeT> clamped_value_;')]},
    {'struct': 'OTB', 'file': NU, 'fields': [
        ('int32_t quantization_bits_', r'int32_t quantization_bits_;'), ('int32_t max_quantized_value_', r'int32_t max_quantized_value_;'),
        ('int32_t max_value_', r'int32_t max_value_;'), ('float dequantization_scale_', r'float dequantization_scale_;'), ('int32_t center_value_', r'int32_t center_value_;')]},
]
T = {'DataTypeT': 'int32_t', 'CorrTypeT': 'int32_t'}
ACC = [(r'this->num_components\(\)', 'Wrap_num_components(self)'), (r'this->min_value\(\)', 'Wrap_min_value(self)'), (r'this->max_value\(\)', 'Wrap_max_value(self)'),
       (r'this->max_dif\(\)', 'Wrap_max_dif(self)'), (r'this->min_correction\(\)', 'Wrap_min_correction(self)'), (r'this->max_correction\(\)', 'Wrap_max_correction(self)')]
def acc(n, body_has):
    return [(p, r, 1) for p, r in ACC if p.split('>')[1].split('\\')[0] in body_has]

functions = []
for name, cty in [('num_components', 'int'), ('min_value', 'int32_t'), ('max_value', 'int32_t'), ('max_dif', 'int32_t'), ('min_correction', 'int32_t'), ('max_correction', 'int32_t')]:
    functions.append({'name': 'Wrap_' + name, 'file': WB, 'anchor': r'inline (?:int|DataTypeT) %s\(\) const\s*\{' % name,
                      'sig': '%s Wrap_%s(const struct Wrap *self)' % (cty, name), 'members': WM, 'tparams': T})
functions += [
    {'name': 'Wrap_set_min_value', 'file': WB, 'anchor': r'inline void set_min_value\(const DataTypeT &v\)\s*\{', 'sig': 'void Wrap_set_min_value(struct Wrap *self, int32_t v)', 'members': WM, 'tparams': T},
    {'name': 'Wrap_set_max_value', 'file': WB, 'anchor': r'inline void set_max_value\(const DataTypeT &v\)\s*\{', 'sig': 'void Wrap_set_max_value(struct Wrap *self, int32_t v)', 'members': WM, 'tparams': T},
    {'name': 'Wrap_InitCorrectionBounds', 'file': WB, 'anchor': r'bool InitCorrectionBounds\(\)\s*\{', 'sig': 'bool Wrap_InitCorrectionBounds(struct Wrap *self)',
     'subst': [(r'std::numeric_limits<DataTypeT>::max\(\)', 'INT32_MAX', 1)], 'members': WM, 'tparams': T},
    {'name': 'Wrap_ClampPredictedValue', 'file': WB, 'anchor': r'inline const DataTypeT \*ClampPredictedValue\(\s*const DataTypeT \*predicted_val\) const\s*\{',
     'sig': 'const int32_t *Wrap_ClampPredictedValue(const struct Wrap *self, const int32_t *predicted_val)',
     'subst': [(r'this->num_components\(\)', 'Wrap_num_components(self)', 1), (r'clamped_value_\[i\]', 'self->clamped_value_.data[i]', 3), (r'clamped_value_\.data\(\)', 'self->clamped_value_.data', 1)],
     'members': WM[:-1], 'tparams': T,
     'loops': {0: '__CPROVER_assigns(i, __CPROVER_object_whole(self->clamped_value_.data))\n__CPROVER_loop_invariant(0 <= i && i <= self->num_components_)\n'
                  '__CPROVER_loop_invariant(ghost_k < 0 || ghost_k >= i || self->clamped_value_.data[ghost_k] == WRAP_CLAMP(self, predicted_val[ghost_k]))\n'
                  '__CPROVER_decreases(self->num_components_ - i)'}},
    {'name': 'WrapEnc_ComputeCorrection', 'file': WE,
     'anchor': r'inline void ComputeCorrection\(const DataTypeT \*original_vals,\s*const DataTypeT \*predicted_vals,\s*CorrTypeT \*out_corr_vals\) const\s*\{',
     'sig': 'void WrapEnc_ComputeCorrection(const struct Wrap *self, const int32_t *original_vals, const int32_t *predicted_vals, int32_t *out_corr_vals)',
     'subst': [(r'this->num_components\(\)', 'Wrap_num_components(self)', 1), (r'this->ClampPredictedValue\(', 'Wrap_ClampPredictedValue(self, ', 1),
               (r'DataTypeT &corr_val = out_corr_vals\[i\];', 'int32_t *corr_val_p = &out_corr_vals[i];', 1), (r'\bcorr_val\b', '(*corr_val_p)', 4),
               (r'this->min_correction\(\)', 'Wrap_min_correction(self)', 1), (r'this->max_correction\(\)', 'Wrap_max_correction(self)', 1), (r'this->max_dif\(\)', 'Wrap_max_dif(self)', 2)],
     'tparams': T},
    {'name': 'WrapDec_ComputeOriginalValue', 'file': WD,
     'anchor': r'inline void ComputeOriginalValue\(const DataTypeT \*predicted_vals,\s*const CorrTypeT \*corr_vals,\s*DataTypeT \*out_original_vals\) const\s*\{',
     'sig': 'void WrapDec_ComputeOriginalValue(const struct Wrap *self, const int32_t *predicted_vals, const int32_t *corr_vals, int32_t *out_original_vals)',
     'subst': [(r'this->num_components\(\)', 'Wrap_num_components(self)', 1), (r'this->ClampPredictedValue\(', 'Wrap_ClampPredictedValue(self, ', 1),
               (r'this->min_value\(\)', 'Wrap_min_value(self)', 1), (r'this->max_value\(\)', 'Wrap_max_value(self)', 1), (r'this->max_dif\(\)', 'Wrap_max_dif(self)', 1),
               (r'\bAddAsUnsigned\(', 'AddAsUnsigned_i32(', 0)],
     'tparams': T},
    {'name': 'WrapDec_DecodeTransformData', 'file': WD, 'anchor': r'bool DecodeTransformData\(DecoderBuffer \*buffer\)\s*\{',
     'sig': 'bool WrapDec_DecodeTransformData(struct Wrap *self, struct DecoderBuffer *buffer)',
     'subst': [(r'buffer->Decode\(&min_value\)', 'DecoderBuffer_Decode_i32(buffer, &min_value)', 1), (r'buffer->Decode\(&max_value\)', 'DecoderBuffer_Decode_i32(buffer, &max_value)', 1),
               (r'this->set_min_value\(', 'Wrap_set_min_value(self, ', 1), (r'this->set_max_value\(', 'Wrap_set_max_value(self, ', 1), (r'this->InitCorrectionBounds\(\)', 'Wrap_InitCorrectionBounds(self)', 1)],
     'tparams': T},
]

# ---- OctahedronToolBox + canonicalized transform ------------------------------------------------
OM = ['quantization_bits_', 'max_quantized_value_', 'max_value_', 'dequantization_scale_', 'center_value_']
ABS = (r'std::abs\(', 'draco_abs_i32(', 1)
functions += [
    {'name': 'OTB_SetQuantizationBits', 'file': NU, 'anchor': r'bool SetQuantizationBits\(int32_t q\)\s*\{', 'sig': 'bool OTB_SetQuantizationBits(struct OTB *self, int32_t q)', 'members': OM},
    {'name': 'OTB_CanonicalizeOctahedralCoords', 'file': NU, 'anchor': r'inline void CanonicalizeOctahedralCoords\(int32_t s, int32_t t, int32_t \*out_s,\s*int32_t \*out_t\) const\s*\{',
     'sig': 'void OTB_CanonicalizeOctahedralCoords(const struct OTB *self, int32_t s, int32_t t, int32_t *out_s, int32_t *out_t)', 'members': OM},
    {'name': 'OTB_IntegerVectorToQuantizedOctahedralCoords', 'file': NU,
     'anchor': r'inline void IntegerVectorToQuantizedOctahedralCoords\(const int32_t \*int_vec,\s*int32_t \*out_s,\s*int32_t \*out_t\) const\s*\{',
     'sig': 'void OTB_IntegerVectorToQuantizedOctahedralCoords(const struct OTB *self, const int32_t *int_vec, int32_t *out_s, int32_t *out_t)',
     'subst': [ABS, (r'\bCanonicalizeOctahedralCoords\(', 'OTB_CanonicalizeOctahedralCoords(self, ', 1)], 'members': OM},
    {'name': 'OTB_FloatVectorToQuantizedOctahedralCoords_f32', 'file': NU,
     'anchor': r'template <class T>\s*void FloatVectorToQuantizedOctahedralCoords\(const T \*vector, int32_t \*out_s,\s*int32_t \*out_t\) const\s*\{',
     'sig': 'void OTB_FloatVectorToQuantizedOctahedralCoords_f32(const struct OTB *self, const float *vector, int32_t *out_s, int32_t *out_t)',
     'subst': [(r'std::abs\(static_cast<double>\(', 'fabs(static_cast<double>(', 3), (r'std::abs\(int_vec', 'draco_abs_i32(int_vec', 2),
               (r'\bIntegerVectorToQuantizedOctahedralCoords\(', 'OTB_IntegerVectorToQuantizedOctahedralCoords(self, ', 1)], 'members': OM, 'tparams': {'T': 'float'}},
    {'name': 'OTB_CanonicalizeIntegerVector_i32', 'file': NU, 'anchor': r'template <class T>\s*void CanonicalizeIntegerVector\(T \*vec\) const\s*\{',
     'sig': 'void OTB_CanonicalizeIntegerVector_i32(const struct OTB *self, int32_t *vec)',
     'subst': [(r'static_cast<int64_t>\(std::abs\(vec\[', 'static_cast<int64_t>(draco_abs_i32(vec[', 3), (r'std::abs\(vec\[', 'draco_abs_i32(vec[', 4)], 'members': OM, 'tparams': {'T': 'int32_t'}},
    {'name': 'OTB_IsInDiamond', 'file': NU, 'anchor': r'inline bool IsInDiamond\(const int32_t &s, const int32_t &t\) const\s*\{',
     'sig': 'bool OTB_IsInDiamond(const struct OTB *self, int32_t s, int32_t t)', 'subst': [ABS], 'members': OM},
    {'name': 'OTB_InvertDiamond', 'file': NU, 'anchor': r'void InvertDiamond\(int32_t \*s, int32_t \*t\) const\s*\{',
     'sig': 'void OTB_InvertDiamond(const struct OTB *self, int32_t *s, int32_t *t)',
     'subst': [(r'std::swap\(us, ut\);', '{ uint32_t swap_tmp = us; us = ut; ut = swap_tmp; }', 1)], 'members': OM},
    {'name': 'OTB_ModMax', 'file': NU, 'anchor': r'int32_t ModMax\(int32_t x\) const\s*\{', 'sig': 'int32_t OTB_ModMax(const struct OTB *self, int32_t x)',
     'subst': [(r'this->center_value\(\)', 'OTB_center_value(self)', 2), (r'this->max_quantized_value\(\)', 'OTB_max_quantized_value(self)', 2)]},
    {'name': 'OTB_MakePositive', 'file': NU, 'anchor': r'int32_t MakePositive\(int32_t x\) const\s*\{', 'sig': 'int32_t OTB_MakePositive(const struct OTB *self, int32_t x)',
     'subst': [(r'this->max_quantized_value\(\)', 'OTB_max_quantized_value(self)', 1)]},
    {'name': 'OTB_center_value', 'file': NU, 'anchor': r'int32_t center_value\(\) const\s*\{', 'sig': 'int32_t OTB_center_value(const struct OTB *self)', 'members': OM},
    {'name': 'OTB_max_quantized_value', 'file': NU, 'anchor': r'int32_t max_quantized_value\(\) const\s*\{', 'sig': 'int32_t OTB_max_quantized_value(const struct OTB *self)', 'members': OM},
    {'name': 'OTB_quantization_bits', 'file': NU, 'anchor': r'int32_t quantization_bits\(\) const\s*\{', 'sig': 'int32_t OTB_quantization_bits(const struct OTB *self)', 'members': OM},
    # forwarding layer of PredictionSchemeNormalOctahedronTransformBase (the object holds nothing but the tool box)
    {'name': 'OctT_IsInDiamond', 'file': OB, 'anchor': r'bool IsInDiamond\(DataTypeT s, DataTypeT t\) const\s*\{', 'sig': 'bool OctT_IsInDiamond(const struct OTB *self, int32_t s, int32_t t)',
     'subst': [(r'octahedron_tool_box_\.IsInDiamond\(', 'OTB_IsInDiamond(self, ', 1)]},
    {'name': 'OctT_InvertDiamond', 'file': OB, 'anchor': r'void InvertDiamond\(DataTypeT \*s, DataTypeT \*t\) const\s*\{', 'sig': 'void OctT_InvertDiamond(const struct OTB *self, int32_t *s, int32_t *t)',
     'subst': [(r'return octahedron_tool_box_\.InvertDiamond\(', 'OTB_InvertDiamond(self, ', 1)]},
    {'name': 'OctT_ModMax', 'file': OB, 'anchor': r'int32_t ModMax\(int32_t x\) const\s*\{', 'sig': 'int32_t OctT_ModMax(const struct OTB *self, int32_t x)',
     'subst': [(r'octahedron_tool_box_\.ModMax\(', 'OTB_ModMax(self, ', 1)]},
    {'name': 'OctT_MakePositive', 'file': OB, 'anchor': r'int32_t MakePositive\(int32_t x\) const\s*\{', 'sig': 'int32_t OctT_MakePositive(const struct OTB *self, int32_t x)',
     'subst': [(r'octahedron_tool_box_\.MakePositive\(', 'OTB_MakePositive(self, ', 1)]},
    {'name': 'OctT_center_value', 'file': OB, 'anchor': r'inline DataTypeT center_value\(\) const\s*\{', 'sig': 'int32_t OctT_center_value(const struct OTB *self)',
     'subst': [(r'octahedron_tool_box_\.center_value\(\)', 'OTB_center_value(self)', 1)]},
    {'name': 'OctT_quantization_bits', 'file': OB, 'anchor': r'inline int32_t quantization_bits\(\) const\s*\{', 'sig': 'int32_t OctT_quantization_bits(const struct OTB *self)',
     'subst': [(r'octahedron_tool_box_\.quantization_bits\(\)', 'OTB_quantization_bits(self)', 1)]},
    {'name': 'OctT_set_max_quantized_value', 'file': OB, 'anchor': r'inline bool set_max_quantized_value\(DataTypeT max_quantized_value\)\s*\{',
     'sig': 'bool OctT_set_max_quantized_value(struct OTB *self, int32_t max_quantized_value)',
     'subst': [(r'MostSignificantBit\(max_quantized_value\)', 'MostSignificantBit_model((uint32_t)max_quantized_value)', 1), (r'octahedron_tool_box_\.SetQuantizationBits\(', 'OTB_SetQuantizationBits(self, ', 1)]},
    {'name': 'Canon_GetRotationCount', 'file': CB, 'anchor': r'int32_t GetRotationCount\(Point2 pred\) const\s*\{', 'sig': 'int32_t Canon_GetRotationCount(const struct OTB *self, Point2 pred)',
     'subst': [(r'\bpred\[', 'pred.v[', 2)], 'tparams': {'DataType': 'int32_t'}},
    {'name': 'Canon_RotatePoint', 'file': CB, 'anchor': r'Point2 RotatePoint\(Point2 p, int32_t rotation_count\) const\s*\{', 'sig': 'Point2 Canon_RotatePoint(const struct OTB *self, Point2 p, int32_t rotation_count)',
     'subst': [(r'\bp\[', 'p.v[', 6), (r'\bPoint2\(', 'P2(', 3)]},
    {'name': 'Canon_IsInBottomLeft', 'file': CB, 'anchor': r'bool IsInBottomLeft\(const Point2 &p\) const\s*\{', 'sig': 'bool Canon_IsInBottomLeft(const struct OTB *self, Point2 p)',
     'subst': [(r'\bp\[', 'p.v[', 4)]},
]
P2IDX = (r'\b(orig|pred|corr)\[', r'\1.v[', 4)
functions += [
    {'name': 'CanonEnc_ComputeCorrectionP', 'file': CE, 'anchor': r'Point2 ComputeCorrection\(Point2 orig, Point2 pred\) const\s*\{',
     'sig': 'Point2 CanonEnc_ComputeCorrectionP(const struct OTB *self, Point2 orig, Point2 pred)',
     'subst': [(r'const Point2 t\(this->center_value\(\), this->center_value\(\)\);', 'const Point2 t = P2(OctT_center_value(self), OctT_center_value(self));', 1),
               (r'orig = orig - t;', 'orig = P2_sub(orig, t);', 1), (r'pred = pred - t;', 'pred = P2_sub(pred, t);', 1), (r'Point2 corr = orig - pred;', 'Point2 corr = P2_sub(orig, pred);', 1),
               P2IDX, (r'this->IsInDiamond\(', 'OctT_IsInDiamond(self, ', 1), (r'this->InvertDiamond\(', 'OctT_InvertDiamond(self, ', 2),
               (r'this->IsInBottomLeft\(', 'Canon_IsInBottomLeft(self, ', 1), (r'this->GetRotationCount\(', 'Canon_GetRotationCount(self, ', 1), (r'this->RotatePoint\(', 'Canon_RotatePoint(self, ', 2),
               (r'this->MakePositive\(', 'OctT_MakePositive(self, ', 2)]},
    {'name': 'CanonEnc_ComputeCorrection', 'file': CE,
     'anchor': r'inline void ComputeCorrection\(const DataType \*orig_vals,\s*const DataType \*pred_vals,\s*CorrType \*out_corr_vals\) const\s*\{',
     'sig': 'void CanonEnc_ComputeCorrection(const struct OTB *self, const int32_t *orig_vals, const int32_t *pred_vals, int32_t *out_corr_vals)',
     'subst': [(r'\bPoint2\(', 'P2(', 2), (r'ComputeCorrection\(orig, pred\)', 'CanonEnc_ComputeCorrectionP(self, orig, pred)', 1), (r'\bcorr\[', 'corr.v[', 2),
               (r'this->center_value\(\)', 'OctT_center_value(self)', 4)], 'drop_dcheck': False},
    {'name': 'CanonDec_ComputeOriginalValueP', 'file': CD, 'anchor': r'Point2 ComputeOriginalValue\(Point2 pred, Point2 corr\) const\s*\{',
     'sig': 'Point2 CanonDec_ComputeOriginalValueP(const struct OTB *self, Point2 pred, Point2 corr)',
     'subst': [(r'const Point2 t\(this->center_value\(\), this->center_value\(\)\);', 'const Point2 t = P2(OctT_center_value(self), OctT_center_value(self));', 1),
               (r'pred = pred - t;', 'pred = P2_sub(pred, t);', 1), (r'orig = orig \+ t;', 'orig = P2_add(orig, t);', 1),
               (r'Point2 orig\(this->ModMax\(AddAsUnsigned\(pred\[0\], corr\[0\]\)\),\s*this->ModMax\(AddAsUnsigned\(pred\[1\], corr\[1\]\)\)\);',
                'Point2 orig = P2(OctT_ModMax(self, AddAsUnsigned_i32(pred.v[0], corr.v[0])), OctT_ModMax(self, AddAsUnsigned_i32(pred.v[1], corr.v[1])));', 1),
               P2IDX, (r'this->IsInDiamond\(', 'OctT_IsInDiamond(self, ', 1), (r'this->InvertDiamond\(', 'OctT_InvertDiamond(self, ', 2),
               (r'this->IsInBottomLeft\(', 'Canon_IsInBottomLeft(self, ', 1), (r'this->GetRotationCount\(', 'Canon_GetRotationCount(self, ', 1), (r'this->RotatePoint\(', 'Canon_RotatePoint(self, ', 2)]},
    {'name': 'CanonDec_ComputeOriginalValue', 'file': CD,
     'anchor': r'inline void ComputeOriginalValue\(const DataType \*pred_vals,\s*const CorrType \*corr_vals,\s*DataType \*out_orig_vals\) const\s*\{',
     'sig': 'void CanonDec_ComputeOriginalValue(const struct OTB *self, const int32_t *pred_vals, const int32_t *corr_vals, int32_t *out_orig_vals)',
     'subst': [(r'\bPoint2\(', 'P2(', 2), (r'ComputeOriginalValue\(pred, corr\)', 'CanonDec_ComputeOriginalValueP(self, pred, corr)', 1), (r'\borig\[', 'orig.v[', 2)]},
    {'name': 'CanonDec_DecodeTransformData', 'file': CD, 'anchor': r'bool DecodeTransformData\(DecoderBuffer \*buffer\)\s*\{',
     'sig': 'bool CanonDec_DecodeTransformData(struct OTB *self, struct DecoderBuffer *buffer)',
     'subst': [(r'buffer->Decode\(&max_quantized_value\)', 'DecoderBuffer_Decode_i32(buffer, &max_quantized_value)', 1), (r'buffer->Decode\(&center_value\)', 'DecoderBuffer_Decode_i32(buffer, &center_value)', 1),
               (r'this->set_max_quantized_value\(', 'OctT_set_max_quantized_value(self, ', 1), (r'this->quantization_bits\(\)', 'OctT_quantization_bits(self)', 2)],
     'tparams': {'DataTypeT': 'int32_t'}},
    {'name': 'AddAsUnsigned_i32', 'file': MU,
     'anchor': r'std::is_signed<DataTypeT>::value>::type \* = nullptr>\s*inline DataTypeT AddAsUnsigned\(DataTypeT a, DataTypeT b\)\s*\{',
     'sig': 'int32_t AddAsUnsigned_i32(int32_t a, int32_t b)',
     'subst': [(r'typedef typename std::make_unsigned<DataTypeT>::type DataTypeUT;', 'typedef uint32_t DataTypeUT;', 1)], 'tparams': {'DataTypeT': 'int32_t'}},
]

UNIT = {'name': 'pred', 'structs': structs, 'consts': [], 'functions': functions,
        'pre_text': ['typedef struct { int32_t v[2]; } Point2; /* VectorD<int32_t,2>: rule R-point2 */']}

SRC = 'contracts/pred.c'
DEFS = ['-DDRACO_BACKWARDS_COMPATIBILITY_SUPPORTED']
JOBS = []
def J(id, entry, props, enforce=None, replace=(), loops=False, unwind=None, unwind_reason=None, **kw):
    j = {'id': 'pred.' + id, 'src': SRC, 'entry': entry, 'enforce': enforce, 'replace': list(replace), 'loops': loops,
         'unwind': unwind, 'unwind_reason': unwind_reason, 'props': props, 'defines': DEFS}
    j.update(kw); JOBS.append(j); return j

J('wrap.InitCorrectionBounds.contract', 'h_enf_Wrap_InitCorrectionBounds', ['C16', 'C02'], enforce='Wrap_InitCorrectionBounds')
J('wrap.ClampPredictedValue.contract', 'h_enf_Wrap_ClampPredictedValue', ['C16', 'C02'], enforce='Wrap_ClampPredictedValue', replace=['Wrap_num_components'] if False else [], loops=True)
J('wrap.DecodeTransformData.contract', 'h_enf_WrapDec_DecodeTransformData', ['C16', 'C02', 'C05'], enforce='WrapDec_DecodeTransformData',
  replace=['DecoderBuffer_Decode_i32', 'Wrap_InitCorrectionBounds'])
J('wrap.inv', 'h_wrap_inv', ['C16', 'C01'], unwind=3, unwind_reason='per-component lemma with num_components = 1 (all values of min,max,orig,pred); the component loop body touches index i only', native=True,
  defines=DEFS + ['-DWRAP_NC=1'])
J('wrap.inv.nc2', 'h_wrap_inv', ['C16'], unwind=4, unwind_reason='bounded: num_components <= 2 (exercises the re-clamping of the already clamped array in iteration 2)', native=True,
  defines=DEFS + ['-DWRAP_NC=2'], timeout=1800, tier='thorough')
J('wrap.safe', 'h_wrap_safe', ['C16', 'C02'], unwind=5, unwind_reason='bounded: per-component loops over num_components <= 3', native=True, defines=DEFS + ['-DWRAP_NC=3'])
J('oct.SetQuantizationBits.contract', 'h_enf_OTB_SetQuantizationBits', ['C16', 'C02', 'C07', 'C05'], enforce='OTB_SetQuantizationBits')
J('oct.set_max_quantized_value.contract', 'h_enf_OctT_set_max_quantized_value', ['C16', 'C02'], enforce='OctT_set_max_quantized_value', replace=['MostSignificantBit', 'OTB_SetQuantizationBits'])
J('oct.DecodeTransformData.contract', 'h_enf_CanonDec_DecodeTransformData', ['C16', 'C02'], enforce='CanonDec_DecodeTransformData',
  replace=['DecoderBuffer_Decode_i32', 'OctT_set_max_quantized_value'])
J('oct.AddAsUnsigned.contract', 'h_enf_AddAsUnsigned_i32', ['C16', 'C02'], enforce='AddAsUnsigned_i32')
QUICK_Q = [2, 3, 4, 8, 12, 16, 24, 30]
for q in range(2, 31):
    J('oct.inv.q%d' % q, 'h_oct_inv', ['C16'], defines=DEFS + ['-DOCT_Q=%d' % q], native=True, tier=None if q in QUICK_Q else 'thorough', timeout=1200, cost=5)
J('oct.safe', 'h_oct_safe', ['C16', 'C02'], native=True, timeout=1200, cost=5)
ASSUMPTIONS = ['VectorD<int32_t,2> (Point2) is represented by struct{int32_t v[2]} with hand-written P2/P2_sub/P2_add mirroring VectorD constructors and component-wise operators (contracts/pred_helpers.h)',
               'std::vector<int32_t> clamped_value_ is pre-sized by Init(num_components) (not under contract): modelled as data pointer + size',
               'wrap transform lemmas are per component; the component loop is unwound for num_components <= 3 (components are independent: each iteration touches index i only)',
               'OctahedronToolBox::dequantization_scale_ (float) is carried but not constrained by any integer lemma']
NATIVE_SOURCES = []
COSIM = True
TYPES_PRELUDE = ['vec_i32.h', 'core_types.h']
SLICE_PRELUDE = ['pred_helpers.h']

J('oct.IntegerVectorToQuantizedOctahedralCoords', 'h_oct_intvec', ['C07', 'C02'], native=True)
for q in (2, 8, 30):
    J('oct.FloatVector.range.q%d' % q, 'h_oct_floatvec', ['C07'], defines=DEFS + ['-DOCT_Q=%d' % q], cbmc=['--conversion-check'], native=True, timeout=1800, cost=9, tier=None if q in (2, 8) else 'thorough', may_time_out=q not in (2, 8))
for q in (4, 8):
    J('oct.FloatVector.dominant.q%d' % q, 'h_oct_floatvec_dominant', ['C07'], defines=DEFS + ['-DOCT_Q=%d' % q], replace=['OTB_IntegerVectorToQuantizedOctahedralCoords'], timeout=1200, cost=7)
# 64-bit multiply + divide by the VARIABLE abs_sum: no back end relates the quotient to its bound over the full domain (measured: > 30 min), so the
# lemma is a bounded stand-in (components below 2^8, per q) in the quick tier and attempted over the full domain only in the thorough tier
for q, b in ((4, 6), (8, 8)):
    J('oct.CanonicalizeIntegerVector.q%d.bounded' % q, 'h_oct_canon_intvec', ['C07', 'C02'], defines=DEFS + ['-DOCT_Q=%d' % q, '-DINTVEC_BOUND=(1<<%d)' % b], native=True, timeout=900, cost=6,
      unwind=1, unwind_reason='bounded: |components| < 2^%d (no loop; the bound is on the VALUES, stated here so that the job is reported as a bounded stand-in)' % b)
J('oct.CanonicalizeIntegerVector', 'h_oct_canon_intvec', ['C07', 'C02'], native=True, timeout=3600, cost=8, tier='thorough', may_time_out=True)
