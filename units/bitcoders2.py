"""Unit 'bitcoders2' (C17, C02, C18): the remaining binary coders of C17 -- AdaptiveRAnsBit{En,De}coder (+ clamp_probability /
update_probability), FoldedBit32{En,De}coder<...> bit routing, SymbolBit{En,De}coder, and RAnsBitEncoder::EndEncoding (probability
clamp and the order in which stored bits are handed to the rABS writer)."""
B = 'src/draco/compression/bit_coders/'
DEPS = ['core', 'ans', 'bitcoders']
ADM = ['ans_decoder_', 'p0_f_']
functions = [
    {'name': 'clamp_probability', 'file': B + 'adaptive_rans_bit_coding_shared.h', 'anchor': r'inline uint8_t clamp_probability\(double p\)\s*\{', 'sig': 'uint8_t clamp_probability(double p)'},
    {'name': 'update_probability', 'file': B + 'adaptive_rans_bit_coding_shared.h', 'anchor': r'inline double update_probability\(double old_p, bool bit\)\s*\{', 'sig': 'double update_probability(double old_p, bool bit)',
     'subst': [(r'static constexpr double', 'const double', 3)]},
    {'name': 'AdaptiveRAnsBitDecoder_Clear', 'file': B + 'adaptive_rans_bit_decoder.cc', 'anchor': r'void AdaptiveRAnsBitDecoder::Clear\(\)\s*\{', 'sig': 'void AdaptiveRAnsBitDecoder_Clear(struct AdaptiveRAnsBitDecoder *self)',
     'subst': [(r'ans_read_end\(&ans_decoder_\)', 'ans_read_end(&self->ans_decoder_)', 1)], 'members': ['p0_f_']},
    {'name': 'AdaptiveRAnsBitDecoder_StartDecoding', 'file': B + 'adaptive_rans_bit_decoder.cc', 'anchor': r'bool AdaptiveRAnsBitDecoder::StartDecoding\(DecoderBuffer \*source_buffer\)\s*\{',
     'sig': 'bool AdaptiveRAnsBitDecoder_StartDecoding(struct AdaptiveRAnsBitDecoder *self, struct DecoderBuffer *source_buffer)',
     'subst': [(r'\bClear\(\)', 'AdaptiveRAnsBitDecoder_Clear(self)', 1), (r'source_buffer->Decode\(&size_in_bytes\)', 'DecoderBuffer_Decode_u32(source_buffer, &size_in_bytes)', 1),
               (r'source_buffer->remaining_size\(\)', 'DecoderBuffer_remaining_size(source_buffer)', 1), (r'ans_read_init\(&ans_decoder_,', 'ans_read_init(&self->ans_decoder_,', 1),
               (r'source_buffer->data_head\(\)', 'DecoderBuffer_data_head(source_buffer)', 1), (r'source_buffer->Advance\(size_in_bytes\)', 'DecoderBuffer_Advance(source_buffer, size_in_bytes)', 1)]},
    {'name': 'AdaptiveRAnsBitDecoder_DecodeNextBit', 'file': B + 'adaptive_rans_bit_decoder.cc', 'anchor': r'bool AdaptiveRAnsBitDecoder::DecodeNextBit\(\)\s*\{',
     'sig': 'bool AdaptiveRAnsBitDecoder_DecodeNextBit(struct AdaptiveRAnsBitDecoder *self)', 'subst': [(r'\brabs_read\(', 'RABS_READ(', 1)], 'members': ADM},
    {'name': 'AdaptiveRAnsBitDecoder_DecodeLeastSignificantBits32', 'file': B + 'adaptive_rans_bit_decoder.cc', 'anchor': r'void AdaptiveRAnsBitDecoder::DecodeLeastSignificantBits32\(int nbits,\s*uint32_t \*value\)\s*\{',
     'sig': 'void AdaptiveRAnsBitDecoder_DecodeLeastSignificantBits32(struct AdaptiveRAnsBitDecoder *self, int nbits, uint32_t *value)',
     'subst': [(r'\bDecodeNextBit\(\)', 'AdaptiveRAnsBitDecoder_DecodeNextBit(self)', 1)], 'members': ADM, 'drop_dcheck': False,
     'loops': {0: '__CPROVER_assigns(nbits, result, self->p0_f_, self->ans_decoder_.state, self->ans_decoder_.buf_offset)\n'
                  '__CPROVER_loop_invariant(0 <= nbits && nbits <= __CPROVER_loop_entry(nbits) && 0.0 <= self->p0_f_ && self->p0_f_ <= 1.0)\n'
                  '__CPROVER_loop_invariant(self->ans_decoder_.state < ANS_TOP && 0 <= self->ans_decoder_.buf_offset && self->ans_decoder_.buf_offset <= __CPROVER_loop_entry(self->ans_decoder_.buf_offset))\n'
                  '__CPROVER_decreases(nbits)'}},
    # the forward pass of AdaptiveRAnsBitEncoder::EndEncoding: body of `for (bool b : bits_)` (range-for over vector<bool>), one bit per call
    {'name': 'AdaptiveRAnsBitEncoder_forward_step', 'file': B + 'adaptive_rans_bit_encoder.cc',
     'region': r'for \(bool b : bits_\) \{\n(\s*p0s\.push_back\(clamp_probability\(p0_f\)\);\n\s*p0_f = update_probability\(p0_f, b\);)\n\s*\}', 'region_tail': '',
     'sig': 'void AdaptiveRAnsBitEncoder_forward_step(double *p0_f_ref, bool b, uint8_t *p0_out)',
     'subst': [(r'p0s\.push_back\(clamp_probability\(p0_f\)\);', '*p0_out = clamp_probability(*p0_f_ref);', 1), (r'p0_f = update_probability\(p0_f, b\);', '*p0_f_ref = update_probability(*p0_f_ref, b);', 1)]},
    # ---- FoldedBit32 coders: routing of bit positions to per-position sub-coders (sub-coders are ghost stand-ins) ----
    {'name': 'FoldedBit32Encoder_EncodeLeastSignificantBits32', 'file': B + 'folded_integer_bit_encoder.h', 'anchor': r'void EncodeLeastSignificantBits32\(int nbits, uint32_t value\)\s*\{',
     'sig': 'void FoldedBit32Encoder_EncodeLeastSignificantBits32(struct FoldedBit32Encoder *self, int nbits, uint32_t value)',
     'subst': [(r'folded_number_encoders_\[([^\]]+)\]\.EncodeBit\(', r'SubEnc_EncodeBit(&self->folded_number_encoders_[\1], ', 1)]},
    {'name': 'FoldedBit32Decoder_DecodeLeastSignificantBits32', 'file': B + 'folded_integer_bit_decoder.h', 'anchor': r'void DecodeLeastSignificantBits32\(int nbits, uint32_t \*value\)\s*\{',
     'sig': 'void FoldedBit32Decoder_DecodeLeastSignificantBits32(struct FoldedBit32Decoder *self, int nbits, uint32_t *value)',
     'subst': [(r'folded_number_decoders_\[([^\]]+)\]\.DecodeNextBit\(\)', r'SubDec_DecodeNextBit(&self->folded_number_decoders_[\1])', 1)]},
    {'name': 'FoldedBit32Decoder_StartDecoding', 'file': B + 'folded_integer_bit_decoder.h', 'anchor': r'bool StartDecoding\(DecoderBuffer \*source_buffer\)\s*\{',
     'sig': 'bool FoldedBit32Decoder_StartDecoding(struct FoldedBit32Decoder *self, struct DecoderBuffer *source_buffer)',
     'subst': [(r'folded_number_decoders_\[([^\]]+)\]\.StartDecoding\(source_buffer\)', r'SubDec_StartDecoding(&self->folded_number_decoders_[\1], source_buffer)', 1),
               (r'bit_decoder_\.StartDecoding\(source_buffer\)', 'SubDec_StartDecoding(&self->bit_decoder_, source_buffer)', 1)]},
    # ---- SymbolBit coders ----
    {'name': 'SymbolBitEncoder_EncodeLeastSignificantBits32', 'file': B + 'symbol_bit_encoder.cc', 'anchor': r'void SymbolBitEncoder::EncodeLeastSignificantBits32\(int nbits, uint32_t value\)\s*\{',
     'sig': 'void SymbolBitEncoder_EncodeLeastSignificantBits32(struct SymbolBitCoder *self, int nbits, uint32_t value)',
     'subst': [(r'symbols_\.push_back\(value\)', 'vec_w32_push_back(&self->symbols_, value)', 1)], 'drop_dcheck': False},
    {'name': 'SymbolBitDecoder_DecodeLeastSignificantBits32', 'file': B + 'symbol_bit_decoder.cc', 'anchor': r'void SymbolBitDecoder::DecodeLeastSignificantBits32\(int nbits,\s*uint32_t \*value\)\s*\{',
     'sig': 'void SymbolBitDecoder_DecodeLeastSignificantBits32(struct SymbolBitCoder *self, int nbits, uint32_t *value)',
     'subst': [(r'symbols_\.back\(\)', 'vec_w32_back(&self->symbols_)', 1), (r'symbols_\.pop_back\(\)', 'vec_w32_pop_back(&self->symbols_)', 1), (r'symbols_\.empty\(\)', '(self->symbols_.size == 0)', 0),
               (r'symbols_\.size\(\)', 'self->symbols_.size', 0)]},
    {'name': 'SymbolBitDecoder_DecodeNextBit', 'file': B + 'symbol_bit_decoder.cc', 'anchor': r'bool SymbolBitDecoder::DecodeNextBit\(\)\s*\{',
     'sig': 'bool SymbolBitDecoder_DecodeNextBit(struct SymbolBitCoder *self)',
     'subst': [(r'\bDecodeLeastSignificantBits32\(1, &symbol\)', 'SymbolBitDecoder_DecodeLeastSignificantBits32(self, 1, &symbol)', 1)]},
    {'name': 'SymbolBitDecoder_StartDecoding', 'file': B + 'symbol_bit_decoder.cc', 'anchor': r'bool SymbolBitDecoder::StartDecoding\(DecoderBuffer \*source_buffer\)\s*\{',
     'sig': 'bool SymbolBitDecoder_StartDecoding(struct SymbolBitCoder *self, struct DecoderBuffer *source_buffer)',
     'subst': [(r'source_buffer->Decode\(&size\)', 'DecoderBuffer_Decode_u32(source_buffer, &size)', 1), (r'symbols_\.resize\(size\)', 'vec_w32_resize_sym(&self->symbols_, size)', 1),
               (r'DecodeSymbols\(size, 1, source_buffer, symbols_\.data\(\)\)', 'DecodeSymbols(size, 1, source_buffer, self->symbols_.data)', 1),
               (r'std::reverse\(symbols_\.begin\(\), symbols_\.end\(\)\)', 'vec_w32_reverse(&self->symbols_)', 1), (r'std::reverse\(', 'vec_w32_reverse_range(', 0), (r'symbols_\.begin\(\)', 'self->symbols_.data', 0), (r'symbols_\.end\(\)', '(self->symbols_.data + self->symbols_.size)', 0)]},
    # ---- RAnsBitEncoder::EndEncoding: (a) the probability computed from the bit counts; (b) the order in which the stored bits reach rabs_write ----
    {'name': 'RAnsBitEncoder_zero_prob', 'file': B + 'rans_bit_encoder.cc',
     'region': r'void RAnsBitEncoder::EndEncoding\(EncoderBuffer \*target_buffer\) \{\n(\s*uint64_t total = .*?)\n\s*std::vector<uint8_t> buffer\(', 'region_tail': 'return zero_prob;',
     'sig': 'uint8_t RAnsBitEncoder_zero_prob(struct RAnsBitEncoder *self)', 'subst': [(r'\bbit_counts_\[', 'self->bit_counts_.data[', 3)]},
    {'name': 'RAnsBitEncoder_write_bits', 'file': B + 'rans_bit_encoder.cc',
     'region': r'ans_write_init\(&ans_coder, buffer\.data\(\)\);\n(.*?)\n\s*const int size_in_bytes = ans_write_end\(&ans_coder\);', 'region_tail': '',
     'sig': 'void RAnsBitEncoder_write_bits(struct RAnsBitEncoder *self, struct AnsCoder *ans_coder_p, uint8_t zero_prob)',
     'subst': [(r'rabs_write\(&ans_coder,', 'rabs_write_sink(ans_coder_p,', 2),
               (r'for \(auto it = bits_\.rbegin\(\); it != bits_\.rend\(\); \+\+it\) \{\s*const uint32_t bits = \*it;',
                'for (size_t it = self->bits_.size; it > 0; --it) {\n    const uint32_t bits = self->bits_.data[it - 1];', 1)],
     'members': ['local_bits_', 'num_local_bits_']},
]
UNIT = {'name': 'bitcoders2', 'structs': [
    {'struct': 'AdaptiveRAnsBitDecoder', 'file': B + 'adaptive_rans_bit_decoder.h', 'fields': [('struct AnsDecoder ans_decoder_', r'AnsDecoder ans_decoder_;'), ('double p0_f_', r'double p0_f_;')]},
    {'struct': 'SymbolBitCoder', 'file': B + 'symbol_bit_decoder.h', 'fields': [('struct vec_w32 symbols_', r'std::vector<uint32_t> symbols_;')]},
    {'struct': 'SymbolBitCoderEnc', 'file': B + 'symbol_bit_encoder.h', 'fields': [('struct vec_w32 symbols_', r'std::vector<uint32_t> symbols_;')]},
    {'struct': 'FoldedBit32Encoder', 'file': B + 'folded_integer_bit_encoder.h', 'fields': [('struct SubEnc folded_number_encoders_[32]', r'std::array<BitEncoderT, 32> folded_number_encoders_;'), ('struct SubEnc bit_encoder_', r'BitEncoderT bit_encoder_;')]},
    {'struct': 'FoldedBit32Decoder', 'file': B + 'folded_integer_bit_decoder.h', 'fields': [('struct SubDec folded_number_decoders_[32]', r'std::array<BitDecoderT, 32> folded_number_decoders_;'), ('struct SubDec bit_decoder_', r'BitDecoderT bit_decoder_;')]},
], 'consts': [
    {'const': 'ADAPTIVE_ENC_P0_INIT', 'file': B + 'adaptive_rans_bit_encoder.cc', 'regex': r'double p0_f = ([^;]+);'},
    {'const': 'ADAPTIVE_DEC_P0_CTOR', 'file': B + 'adaptive_rans_bit_decoder.cc', 'regex': r'AdaptiveRAnsBitDecoder::AdaptiveRAnsBitDecoder\(\) : p0_f_\(([^)]+)\) \{\}'},
], 'functions': functions,
   'pre_text': ['/* ghost stand-ins for the per-position sub-coders of FoldedBit32{En,De}coder */\nstruct SubEnc { int count; bool last; };\nstruct SubDec { int count; bool next; int started; };']}
# pre_text must precede the structs that use SubEnc/SubDec: the slicer emits consts, raw, structs, pre_text in that order, so the two stand-in
# types are declared in contracts/bitcoders2.c before bitcoders2_types.h is included (see there); pre_text is kept empty here.
UNIT['pre_text'] = []
SRC = 'contracts/bitcoders2.c'
DEFS = ['-DDRACO_BACKWARDS_COMPATIBILITY_SUPPORTED', '-DRANS_P=12']
JOBS = []
def J(id, entry, props, enforce=None, replace=(), loops=False, unwind=None, unwind_reason=None, **kw):
    j = {'id': 'bitcoders2.' + id, 'src': SRC, 'entry': entry, 'enforce': enforce, 'replace': list(replace), 'loops': loops,
         'unwind': unwind, 'unwind_reason': unwind_reason, 'props': props, 'defines': DEFS}
    j.update(kw); JOBS.append(j); return j
SHL1 = (r'arithmetic overflow on signed shl in 1 << ', 'C-vs-C++ difference: `1 << 31` (int) sets the sign bit; undefined in C11, defined in C++11 and later (CWG 1457). The shift-distance check stays enabled.')
COSIM = False
ASSUMPTIONS = ['FoldedBit32 sub-coders are ghost stand-ins (SubEnc/SubDec record which position received which bit); the real sub-coders are RAnsBitEncoder/RAnsBitDecoder, under contract in unit bitcoders',
               'AdaptiveRAnsBitEncoder::EndEncoding: only the forward probability pass (body of the range-for) is sliced; the reverse iteration with rbegin()/rend() over vector<bool> is not under contract',
               'RAnsBitEncoder::EndEncoding: the ANS coder is abstracted as a LIFO of bits in the order lemma (justified by ans.rabs.step: write then read returns the bit and restores the state); buffer sizing (bits_.size()+8)*8 is not under contract',
               'SymbolBitDecoder::StartDecoding: DecodeSymbols is a contract stub (lossless symbol coding is C08); SymbolBit coders are used by no decoding entry point, so its unchecked resize(size) is outside C18']

J('clamp_probability.contract', 'h_enf_clamp_probability', ['C17', 'C02'], enforce='clamp_probability', cbmc=['--float-overflow-check', '--nan-check'])
for b in (0, 1):   # split on the bit: `(!bit) * w1` is then a constant and the only multiplier left is old_p * (127/128)
    J('update_probability.contract.bit%d' % b, 'h_enf_update_probability', ['C17', 'C02'], enforce='update_probability', defines=DEFS + ['-DUP_BIT=%d' % b], solver='cadical', timeout=900, cost=4)
J('adaptive.Clear.contract', 'h_enf_AdaptiveRAnsBitDecoder_Clear', ['C17', 'C02'], enforce='AdaptiveRAnsBitDecoder_Clear', replace=['ans_read_end'])
J('adaptive.StartDecoding.contract', 'h_enf_AdaptiveRAnsBitDecoder_StartDecoding', ['C17', 'C02', 'C18', 'C06'], enforce='AdaptiveRAnsBitDecoder_StartDecoding',
  replace=['AdaptiveRAnsBitDecoder_Clear', 'DecoderBuffer_Decode_u32', 'DecoderBuffer_remaining_size', 'DecoderBuffer_data_head', 'DecoderBuffer_Advance', 'ans_read_init'])
J('adaptive.DecodeNextBit.contract', 'h_enf_AdaptiveRAnsBitDecoder_DecodeNextBit', ['C17', 'C02'], enforce='AdaptiveRAnsBitDecoder_DecodeNextBit', replace=['rabs_desc_read', 'clamp_probability', 'update_probability'])
J('adaptive.DecodeLeastSignificantBits32.contract', 'h_enf_AdaptiveRAnsBitDecoder_DecodeLeastSignificantBits32', ['C17', 'C02'], enforce='AdaptiveRAnsBitDecoder_DecodeLeastSignificantBits32',
  replace=['AdaptiveRAnsBitDecoder_DecodeNextBit'], loops=True)
for b in (0, 1):
    J('adaptive.sync.bit%d' % b, 'h_adaptive_sync', ['C17', 'C06'], defines=DEFS + ['-DSYNC_BIT=%d' % b, '-DRABS_READ=rabs_read_ghost'], solver='cadical', timeout=900, cost=4)
J('folded.enc.contract', 'h_enf_FoldedBit32Encoder_EncodeLeastSignificantBits32', ['C17'], enforce='FoldedBit32Encoder_EncodeLeastSignificantBits32', ignore=[SHL1], unwind=34,
  unwind_reason='loop over nbits <= 32 bit positions; unwinding assertions on')
J('folded.dec.contract', 'h_enf_FoldedBit32Decoder_DecodeLeastSignificantBits32', ['C17', 'C02'], enforce='FoldedBit32Decoder_DecodeLeastSignificantBits32', unwind=34,
  unwind_reason='loop over nbits <= 32 bit positions; unwinding assertions on')
J('folded.rt', 'h_folded_rt', ['C17'], ignore=[SHL1], unwind=34, unwind_reason='loops over nbits <= 32 bit positions; unwinding assertions on')
J('folded.StartDecoding.contract', 'h_enf_FoldedBit32Decoder_StartDecoding', ['C17', 'C02'], enforce='FoldedBit32Decoder_StartDecoding', replace=['SubDec_StartDecoding'], unwind=34,
  unwind_reason='loop over the 32 sub-decoders; unwinding assertions on', cbmc=['--object-bits', '10'])
J('symbolbit.enc.contract', 'h_enf_SymbolBitEncoder_EncodeLeastSignificantBits32', ['C17'], enforce='SymbolBitEncoder_EncodeLeastSignificantBits32')
J('symbolbit.dec.contract', 'h_enf_SymbolBitDecoder_DecodeLeastSignificantBits32', ['C17', 'C02'], enforce='SymbolBitDecoder_DecodeLeastSignificantBits32',
  native_api={'src': 'native/api_symbolbit_overread.cc', 'args': ['0']})
J('symbolbit.rt', 'h_symbolbit_rt', ['C17'], native_api={'src': 'native/api_symbolbit_overread.cc', 'args': ['3']}, unwind=6, unwind_reason='bounded: 3 stored symbols (reverse loop of the vector model); the per-symbol masking is for all values and widths')
J('rbit.zero_prob', 'h_rbit_zero_prob', ['C17'], timeout=900, cost=4)
J('rbit.write_order', 'h_rbit_write_order', ['C17'], unwind=34,
  unwind_reason='bounded: at most 1 flushed word + 31 local bits (inner loops run 32 times; outer loop over <= 1 stored words); unwinding assertions on')
