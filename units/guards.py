"""Unit 'guards' (C18, C02): plausibility guards on declared counts that sit in front of allocations in functions too large to slice whole:
the prologue of AttributesDecoder::DecodeAttributesDecoderData and the header section of MeshEdgebreakerDecoderImpl::DecodeConnectivity
(statement regions, slicer rule `region`)."""
AD = 'src/draco/compression/attributes/attributes_decoder.cc'
EB = 'src/draco/compression/mesh/mesh_edgebreaker_decoder_impl.cc'
DEPS = ['core']
DEC = [(r'!in_buffer->Decode\(&(\w+)\)', r'!DecoderBuffer_Decode_u32(in_buffer, &\1)', 0), (r'!DecodeVarint\(&(\w+), in_buffer\)', r'!DecodeVarint_u32(&\1, in_buffer)', 0)]
functions = [
    {'name': 'AttributesDecoder_Prologue', 'file': AD,
     'region': r'bool AttributesDecoder::DecodeAttributesDecoderData\(DecoderBuffer \*in_buffer\) \{\n(.*?point_attribute_ids_\.resize\(num_attributes\);)',
     'region_tail': 'return true;',
     'sig': 'bool AttributesDecoder_Prologue(struct GuardCtx *self, struct DecoderBuffer *in_buffer)',
     'subst': DEC + [(r'point_cloud_decoder_->bitstream_version\(\)', 'self->bitstream_version', 1), (r'in_buffer->remaining_size\(\)', 'DecoderBuffer_remaining_size(in_buffer)', 1),
                     (r'point_attribute_ids_\.resize\(num_attributes\)', 'alloc_table(self, (uint64_t)num_attributes, 4)', 1)]},
    {'name': 'Edgebreaker_Header', 'file': EB,
     'region': r'\n(  uint32_t num_encoded_vertices;\n#ifdef DRACO_BACKWARDS_COMPATIBILITY_SUPPORTED.*?)\n\s*vertex_traversal_length_\.clear\(\);',
     'region_tail': 'self->num_faces = num_faces; self->num_encoded_vertices = num_encoded_vertices; self->num_encoded_symbols = num_encoded_symbols; self->num_encoded_split_symbols = num_encoded_split_symbols; return true;',
     'sig': 'bool Edgebreaker_Header(struct GuardCtx *self)',
     'subst': [(r'decoder_->bitstream_version\(\)', 'self->bitstream_version', 4), (r'!decoder_->buffer\(\)->Decode\(&num_attribute_data\)', '!DecoderBuffer_Decode_u8(self->buffer, &num_attribute_data)', 1),
               (r'!decoder_->buffer\(\)->Decode\(&(\w+)\)', r'!DecoderBuffer_Decode_u32(self->buffer, &\1)', 4), (r'!DecodeVarint\(&(\w+), decoder_->buffer\(\)\)', r'!DecodeVarint_u32(&\1, self->buffer)', 4),
               (r'std::numeric_limits<CornerIndex::ValueType>::max\(\)', 'UINT32_MAX', 1), (r'\bnum_encoded_vertices_\b', 'self->num_encoded_vertices_', 3)]},
    # prologue of MeshEdgebreakerDecoderImpl::CreateAttributesDecoder: which attribute connectivity data a new attribute decoder claims
    {'name': 'Edgebreaker_ClaimAttributeData', 'file': EB,
     'region': r'::CreateAttributesDecoder\(\s*int32_t att_decoder_id\) \{\n(.*?)\n\s*const Mesh \*mesh = decoder_->mesh\(\);', 'region_tail': 'self->traversal_method = (int)traversal_method; return true;',
     'sig': 'bool Edgebreaker_ClaimAttributeData(struct ClaimCtx *self, int32_t att_decoder_id)',
     'subst': [(r'!decoder_->buffer\(\)->Decode\(&att_data_id\)', '!DecoderBuffer_Decode_i8(self->buffer, &att_data_id)', 1), (r'!decoder_->buffer\(\)->Decode\(&(decoder_type|traversal_method_encoded)\)', r'!DecoderBuffer_Decode_u8(self->buffer, &\1)', 2),
               (r'attribute_data_\.size\(\)', 'self->num_attribute_data', 1), (r'attribute_data_\[att_data_id\]\.decoder_id', 'self->attribute_data_decoder_id[att_data_id]', 2),
               (r'\bpos_data_decoder_id_\b', 'self->pos_data_decoder_id_', 2), (r'decoder_->bitstream_version\(\)', 'self->bitstream_version', 1),
               (r'MeshTraversalMethod traversal_method = MESH_TRAVERSAL_DEPTH_FIRST;', 'int traversal_method = MESH_TRAVERSAL_DEPTH_FIRST;', 1),
               (r'static_cast<MeshTraversalMethod>\(traversal_method_encoded\)', '(int)traversal_method_encoded', 1)]},
    {'name': 'KdOutIt_assign_vec3', 'file': 'src/draco/compression/attributes/kd_tree_attributes_decoder.cc',
     'anchor': r'const Self &operator=\(const VectorD<CoeffT, 3> &val\)\s*\{', 'sig': 'void KdOutIt_assign_vec3(struct KdOutIt *self, const uint32_t *val)',
     'subst': [(r'AttributeTuple &att = attributes_\[0\];', 'struct AttTuple *att = &self->attributes_[0];', 1), (r'PointAttribute \*attribute = std::get<0>\(att\);', 'struct PAStub *attribute = att->attribute;', 1),
               (r'const AttributeValueIndex avi = attribute->mapped_index\(point_id_\);', 'const uint32_t avi = PA_mapped_index(attribute, self->point_id_);', 1),
               (r'static_cast<uint32_t>\(attribute->size\(\)\)', 'PA_size(attribute)', 0), (r'attribute->size\(\)', 'PA_size(attribute)', 0),
               (r'const uint32_t &offset = std::get<1>\(att\);', 'const uint32_t offset = att->offset;', 1),
               (r'attribute->SetAttributeValue\(avi, &val\[0\] \+ offset\)', 'PA_SetAttributeValue(attribute, avi, &val[0] + offset)', 1), (r'return \*this;', 'return;', 1)]},
]
UNIT = {'name': 'guards', 'structs': [], 'consts': [{'const': 'MESH_TRAVERSAL_DEPTH_FIRST', 'file': 'src/draco/compression/config/compression_shared.h', 'regex': r'MESH_TRAVERSAL_DEPTH_FIRST = (\d+),'},
        {'const': 'NUM_TRAVERSAL_METHODS', 'file': 'src/draco/compression/config/compression_shared.h', 'regex': r'MESH_TRAVERSAL_PREDICTION_DEGREE = (\d+),\s*NUM_TRAVERSAL_METHODS', 'expr': '({}) + 1'}], 'functions': functions,
        'pre_text': ['struct GuardCtx { uint16_t bitstream_version; struct DecoderBuffer *buffer; int64_t remaining_at_entry; int32_t num_encoded_vertices_;\n'
                     '                  uint32_t num_faces, num_encoded_vertices, num_encoded_symbols, num_encoded_split_symbols; };',
                     'struct ClaimCtx { struct DecoderBuffer *buffer; uint16_t bitstream_version; size_t num_attribute_data; int32_t *attribute_data_decoder_id; int32_t pos_data_decoder_id_; int traversal_method; uint8_t decoder_type_seen; };',
                     'struct PAStub { uint32_t size; uint32_t mapped; };\nstruct AttTuple { struct PAStub *attribute; uint32_t offset; };\nstruct KdOutIt { struct AttTuple *attributes_; uint32_t point_id_; };']}
SRC = 'contracts/guards.c'
DEFS = ['-DDRACO_BACKWARDS_COMPATIBILITY_SUPPORTED']
JOBS = []
def J(id, entry, props, enforce=None, replace=(), loops=False, unwind=None, unwind_reason=None, **kw):
    j = {'id': 'guards.' + id, 'src': SRC, 'entry': entry, 'enforce': enforce, 'replace': list(replace), 'loops': loops,
         'unwind': unwind, 'unwind_reason': unwind_reason, 'props': props, 'defines': DEFS}
    j.update(kw); JOBS.append(j); return j
J('AttributesDecoder.prologue.contract', 'h_enf_AttributesDecoder_Prologue', ['C18', 'C02'], enforce='AttributesDecoder_Prologue',
  replace=['DecoderBuffer_Decode_u32', 'DecodeVarint_u32', 'DecoderBuffer_remaining_size', 'alloc_table'])
J('Edgebreaker.header.contract', 'h_enf_Edgebreaker_Header', ['C18', 'C02'], enforce='Edgebreaker_Header',
  replace=['DecoderBuffer_Decode_u32', 'DecodeVarint_u32', 'DecoderBuffer_Decode_u8'])
J('Edgebreaker.claim_attribute_data.contract', 'h_enf_Edgebreaker_ClaimAttributeData', ['C03', 'C02'], enforce='Edgebreaker_ClaimAttributeData', replace=['DecoderBuffer_Decode_i8', 'DecoderBuffer_Decode_u8'])
J('KdOutIt.assign_vec3.contract', 'h_enf_KdOutIt_assign_vec3', ['C02', 'C03'], enforce='KdOutIt_assign_vec3', replace=['PA_mapped_index', 'PA_size', 'PA_SetAttributeValue'])
TYPES_PRELUDE = ['core_types.h']
COSIM = False
ASSUMPTIONS = ['only the guard prologues of AttributesDecoder::DecodeAttributesDecoderData and MeshEdgebreakerDecoderImpl::DecodeConnectivity are sliced (statement regions); '
               'the decoder object is reduced to the bitstream version and the buffer; what follows the guards in those functions is not under contract']

# MeshEdgebreakerDecoderImpl::DecodeHoleAndTopologySplitEvents, whole function: side tables of split / hole events sized by counts from the stream
INV_TS = ('__CPROVER_loop_invariant(i <= num_topology_splits && self->ts_size == (size_t)i && self->he_size == 0 && DB_INV(decoder_buffer) && '
          'decoder_buffer->pos_ >= self->entry_pos && (size_t)(decoder_buffer->pos_ - self->entry_pos) >= self->ts_size + 1)')
INV_HE = ('__CPROVER_loop_invariant(i <= num_hole_events && self->he_size == (size_t)i && DB_INV(decoder_buffer) && decoder_buffer->pos_ >= self->entry_pos && '
          '(size_t)(decoder_buffer->pos_ - self->entry_pos) >= self->ts_size + self->he_size + 1)')
functions.append(
    {'name': 'EB_DecodeHoleAndTopologySplitEvents', 'file': EB,
     'anchor': r'int32_t\s*MeshEdgebreakerDecoderImpl<TraversalDecoder>::DecodeHoleAndTopologySplitEvents\(\s*DecoderBuffer \*decoder_buffer\)\s*\{',
     'sig': 'int32_t EB_DecodeHoleAndTopologySplitEvents(struct EvCtx *self, struct DecoderBuffer *decoder_buffer)',
     'subst': [(r'decoder_->bitstream_version\(\)', 'self->bitstream_version', 0), (r'corner_table_->num_faces\(\)', 'self->ct_num_faces', 0),
               (r'(?<!struct )\bTopologySplitEventData event_data;', 'struct TopologySplitEventData event_data;', 0), (r'(?<!struct )\bHoleEventData event_data;', 'struct HoleEventData event_data; event_data.symbol_id = 0;', 0),
               (r'TopologySplitEventData &event_data = topology_split_data_\[((?:[^\[\]])+)\];\s*event_data\.source_edge = ((?:[^;])+);', r'ts_set_edge(self, \1, \2);', 0),
               (r'decoder_buffer->Decode\(&event_data\)', 'DecoderBuffer_Decode_i32(decoder_buffer, &event_data.symbol_id)', 0), (r'decoder_buffer->Decode\(&edge_data\)', 'DecoderBuffer_Decode_u8(decoder_buffer, &edge_data)', 0),
               (r'decoder_buffer->Decode\(&((?:event_data\.)?\w+)\)', r'DecoderBuffer_Decode_u32(decoder_buffer, &\1)', 0), (r'DecodeVarint(?:<uint32_t>)?\(&(\w+), decoder_buffer\)', r'DecodeVarint_u32(&\1, decoder_buffer)', 0),
               (r'topology_split_data_\.push_back\(event_data\)', 'tsvec_push(self, decoder_buffer)', 0), (r'hole_event_data_\.push_back\(event_data\)', 'hevec_push(self, decoder_buffer)', 0),
               (r'(?:topology_split_data_|hole_event_data_)\.(?:reserve|resize)\(', 'evvec_reserve(self, decoder_buffer, ', 0),
               (r'decoder_buffer->StartBitDecoding\(false, nullptr\)', 'GB_Start(decoder_buffer)', 0), (r'decoder_buffer->DecodeLeastSignificantBits32\(', 'GB_Decode(decoder_buffer, ', 0), (r'decoder_buffer->EndBitDecoding\(\)', 'GB_End(decoder_buffer)', 0),
               (r'decoder_buffer->decoded_size\(\)', 'decoder_buffer->pos_', 0)],
     'loops': {0: '__CPROVER_assigns(i, self->ts_size, decoder_buffer->pos_)\n' + INV_TS + '\n__CPROVER_decreases(num_topology_splits - i)',
               1: '__CPROVER_assigns(i, self->ts_size, last_source_symbol_id, decoder_buffer->pos_)\n' + INV_TS + '\n__CPROVER_decreases(num_topology_splits - i)',
               2: '__CPROVER_assigns(i, ghost_gb_reads)\n__CPROVER_loop_invariant(i <= num_topology_splits && self->ts_size == (size_t)num_topology_splits && ghost_gb_mode == 1)\n__CPROVER_decreases(num_topology_splits - i)',
               3: '__CPROVER_assigns(i, self->he_size, decoder_buffer->pos_)\n' + INV_HE + '\n__CPROVER_decreases(num_hole_events - i)',
               4: '__CPROVER_assigns(i, self->he_size, last_symbol_id, decoder_buffer->pos_)\n' + INV_HE + '\n__CPROVER_decreases(num_hole_events - i)'}})
UNIT['pre_text'].append('struct TopologySplitEventData { uint32_t split_symbol_id; uint32_t source_symbol_id; uint32_t source_edge : 1; };\nstruct HoleEventData { int32_t symbol_id; };\n'
                        '/* the two event tables are counted, not stored: what matters here is how large they may grow */\n'
                        'struct EvCtx { uint16_t bitstream_version; int ct_num_faces; size_t ts_size; size_t he_size; int64_t entry_pos; int64_t remaining_at_entry; };')
J('Edgebreaker.events.contract', 'h_enf_EB_DecodeHoleAndTopologySplitEvents', ['C18', 'C02'], enforce='EB_DecodeHoleAndTopologySplitEvents', loops=True, cbmc=['--object-bits', '10'],
  replace=['DecoderBuffer_Decode_u32', 'DecoderBuffer_Decode_i32', 'DecoderBuffer_Decode_u8', 'DecodeVarint_u32', 'tsvec_push', 'hevec_push', 'evvec_reserve', 'ts_set_edge', 'GB_Start', 'GB_Decode', 'GB_End'], timeout=2400, cost=6)
