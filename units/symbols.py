"""Unit 'symbols' (C08, C18, C02, C05): RAnsSymbolDecoder<B>::Create / StartDecoding, symbol decoding dispatch, precision functions."""
E = 'src/draco/compression/entropy/'
DEPS = ['core', 'ans']
SD = ['probability_table_', 'num_symbols_', 'ans_']
functions = [
    {'name': 'ComputeRAnsUnclampedPrecision', 'file': E + 'rans_symbol_coding.h', 'anchor': r'constexpr int ComputeRAnsUnclampedPrecision\(int symbols_bit_length\)\s*\{',
     'sig': 'int ComputeRAnsUnclampedPrecision(int symbols_bit_length)'},
    {'name': 'ComputeRAnsPrecisionFromUniqueSymbolsBitLength', 'file': E + 'rans_symbol_coding.h',
     'anchor': r'constexpr int ComputeRAnsPrecisionFromUniqueSymbolsBitLength\(\s*int symbols_bit_length\)\s*\{', 'sig': 'int ComputeRAnsPrecisionFromUniqueSymbolsBitLength(int symbols_bit_length)'},
    {'name': 'RSD_Create', 'file': E + 'rans_symbol_decoder.h',
     'anchor': r'bool RAnsSymbolDecoder<unique_symbols_bit_length_t>::Create\(\s*DecoderBuffer \*buffer\)\s*\{', 'sig': 'bool RSD_Create(struct RSD *self, struct DecoderBuffer *buffer)',
     'subst': [(r'buffer->bitstream_version\(\)', 'buffer->bitstream_version_', 2), (r'buffer->Decode\(&num_symbols_\)', 'DecoderBuffer_Decode_u32(buffer, &self->num_symbols_)', 1),
               (r'DecodeVarint\(&num_symbols_, buffer\)', 'DecodeVarint_u32(&self->num_symbols_, buffer)', 1), (r'buffer->remaining_size\(\)', 'DecoderBuffer_remaining_size(buffer)', 1),
               (r'ans_\.rans_build_look_up_table\(&probability_table_\[0\], num_symbols_\)', 'RAnsDecoder_rans_build_look_up_table(self->ans_, &self->probability_table_.data[0], self->num_symbols_)', 1),
               (r'probability_table_\.resize\(num_symbols_\)', 'vec_prob_resize(self, self->num_symbols_)', 1), (r'buffer->Decode\(&prob_data\)', 'DecoderBuffer_Decode_u8(buffer, &prob_data)', 1),
               (r'buffer->Decode\(&eb\)', 'DecoderBuffer_Decode_u8(buffer, &eb)', 1), (r'(?<![\w>.])probability_table_\[', 'self->probability_table_.data[', 2)],
     'members': ['num_symbols_'],
     'loops': {0: '__CPROVER_assigns(i, buffer->pos_, __CPROVER_object_whole(self->probability_table_.data))\n'
                  '__CPROVER_loop_invariant(i <= self->num_symbols_ && DB_INV(buffer) && buffer->pos_ >= __CPROVER_loop_entry(buffer->pos_))\n'
                  '__CPROVER_loop_invariant(ghost_sym >= i || self->probability_table_.data[ghost_sym] < (1u << 22))\n'
                  '__CPROVER_decreases(self->num_symbols_ - i)',
               1: '__CPROVER_assigns(j, __CPROVER_object_whole(self->probability_table_.data))\n'
                  '__CPROVER_loop_invariant(j <= offset + 1)\n'
                  '__CPROVER_loop_invariant(ghost_sym >= i + j || self->probability_table_.data[ghost_sym] < (1u << 22))\n'
                  '__CPROVER_decreases(offset + 1 - j)',
               2: '__CPROVER_assigns(b, prob, buffer->pos_)\n'
                  '__CPROVER_loop_invariant(0 <= b && b <= extra_bytes && DB_INV(buffer) && buffer->pos_ >= __CPROVER_loop_entry(buffer->pos_) && prob < (1u << (6 + 8 * b)))\n'
                  '__CPROVER_decreases(extra_bytes - b)'}},
    {'name': 'RSD_StartDecoding', 'file': E + 'rans_symbol_decoder.h',
     'anchor': r'bool RAnsSymbolDecoder<unique_symbols_bit_length_t>::StartDecoding\(\s*DecoderBuffer \*buffer\)\s*\{', 'sig': 'bool RSD_StartDecoding(struct RSD *self, struct DecoderBuffer *buffer)',
     'subst': [(r'buffer->bitstream_version\(\)', 'buffer->bitstream_version_', 1), (r'buffer->Decode\(&bytes_encoded\)', 'DecoderBuffer_Decode_u64(buffer, &bytes_encoded)', 1),
               (r'DecodeVarint<uint64_t>\(&bytes_encoded, buffer\)', 'DecodeVarint_u64(&bytes_encoded, buffer)', 1), (r'buffer->remaining_size\(\)', 'DecoderBuffer_remaining_size(buffer)', 1),
               (r'buffer->data_head\(\)', 'DecoderBuffer_data_head(buffer)', 1), (r'buffer->Advance\(bytes_encoded\)', 'DecoderBuffer_Advance(buffer, (int64_t)bytes_encoded)', 1),
               (r'ans_\.read_init\(', 'RAnsDecoder_read_init(self->ans_, ', 1)]},
    {'name': 'DecodeRawSymbols', 'file': E + 'symbol_decoding.cc',
     'anchor': r'template <template <int> class SymbolDecoderT>\s*bool DecodeRawSymbols\(uint32_t num_values, DecoderBuffer \*src_buffer,\s*uint32_t \*out_values\)\s*\{',
     'sig': 'bool DecodeRawSymbols(uint32_t num_values, struct DecoderBuffer *src_buffer, uint32_t *out_values)',
     'subst': [(r'src_buffer->Decode\(&max_bit_length\)', 'DecoderBuffer_Decode_u8(src_buffer, &max_bit_length)', 1),
               (r'DecodeRawSymbolsInternal<SymbolDecoderT<(\d+)>>\(\s*num_values, src_buffer,\s*out_values\)', r'DecodeRawSymbolsInternal_b(\1, num_values, src_buffer, out_values)', 1)]},
    {'name': 'DecodeSymbols', 'file': E + 'symbol_decoding.cc',
     'anchor': r'bool DecodeSymbols\(uint32_t num_values, int num_components,\s*DecoderBuffer \*src_buffer, uint32_t \*out_values\)\s*\{',
     'sig': 'bool DecodeSymbols(uint32_t num_values, int num_components, struct DecoderBuffer *src_buffer, uint32_t *out_values)',
     'subst': [(r'src_buffer->Decode\(&scheme\)', 'DecoderBuffer_Decode_u8(src_buffer, &scheme)', 1),
               (r'DecodeTaggedSymbols<RAnsSymbolDecoder>\(', 'DecodeTaggedSymbols_stub(', 1), (r'DecodeRawSymbols<RAnsSymbolDecoder>\(', 'DecodeRawSymbols(', 1)]},
    # the zero-run token of the probability table (body of `if (token == 3)` in Create's table loop) as a function of the loop state: the quick-tier
    # cover of the one place in Create that writes a stream-controlled number of entries (the whole loop nest is Create.bounded, thorough tier)
    {'name': 'RSD_Create_zero_run', 'file': E + 'rans_symbol_decoder.h',
     'region': r'if \(token == 3\) \{\n(.*?i \+= offset;)\n\s*\} else \{', 'region_tail': 'return true;',
     'sig': 'bool RSD_Create_zero_run(struct RSD *self, uint32_t *i_ref, uint8_t prob_data)',
     'subst': [(r'(?<![\w>.])probability_table_\[', 'self->probability_table_.data[', 0), (r'probability_table_\.(?:begin\(\)|data\(\))', 'self->probability_table_.data', 0),
               (r'(?<![\w.>])i\b(?!_ref)', '(*i_ref)', 0)],
     'members': ['num_symbols_'],
     'loops': {0: '__CPROVER_assigns(j, __CPROVER_object_whole(self->probability_table_.data))\n__CPROVER_loop_invariant(j <= offset + 1)\n'
                  '__CPROVER_loop_invariant(ghost_sym >= self->num_symbols_ || self->probability_table_.data[ghost_sym] == ((ghost_sym >= (*i_ref) && ghost_sym < (*i_ref) + j) ? 0u : __CPROVER_loop_entry(self->probability_table_.data[ghost_sym < self->num_symbols_ ? ghost_sym : 0])))\n'
                  '__CPROVER_decreases(offset + 1 - j)'}},
    # probability-table codec, entry by entry: body of the table loop of RAnsSymbolEncoder::EncodeTable and the probability token branch of
    # RAnsSymbolDecoder::Create's table loop, each as a function of the loop state
    {'name': 'RSE_EncodeTable_step', 'file': E + 'rans_symbol_encoder.h',
     'region': r'::EncodeTable\(\s*EncoderBuffer \*buffer\) \{.*?for \(uint32_t i = 0; i < num_symbols_; \+\+i\) \{\n(.*?)\n  \}\n  return true;\n\}', 'region_tail': 'return true;',
     'sig': 'bool RSE_EncodeTable_step(struct RSE *self, uint32_t *i_ref, struct EncoderBuffer *buffer)',
     'subst': [(r'(?<![\w>.])probability_table_\[((?:[^\[\]])+)\]\.prob', r'self->probability_table_.data[\1].prob', 0),
               (r'buffer->Encode\(static_cast<uint8_t>\(((?:[^()]|\((?:[^()]|\([^()]*\))*\))*)\)\)', r'EncoderBuffer_Encode_u8_val(buffer, (uint8_t)(\1))', 0),
               (r'(?<![\w.>])i\b(?!_ref)', '(*i_ref)', 0)], 'members': ['num_symbols_']},
    {'name': 'RSD_Create_prob_token', 'file': E + 'rans_symbol_decoder.h',
     'region': r'i \+= offset;\n\s*\} else \{\n(.*?probability_table_\[i\] = prob;)\n\s*\}', 'region_tail': 'return true;',
     'sig': 'bool RSD_Create_prob_token(struct RSD *self, uint32_t i, uint8_t prob_data, int token, struct DecoderBuffer *buffer)',
     'subst': [(r'buffer->Decode\(&eb\)', 'DecoderBuffer_Decode_u8(buffer, &eb)', 0), (r'(?<![\w>.])probability_table_\[', 'self->probability_table_.data[', 0)]},
    # the two symbol loops, over a ghost symbol decoder (its Create / StartDecoding / DecodeSymbol are under contract above and in unit ans)
    {'name': 'DecodeRawSymbolsInternal', 'file': E + 'symbol_decoding.cc',
     'anchor': r'template <class SymbolDecoderT>\s*bool DecodeRawSymbolsInternal\(uint32_t num_values, DecoderBuffer \*src_buffer,\s*uint32_t \*out_values\)\s*\{',
     'sig': 'bool DecodeRawSymbolsInternal(uint32_t num_values, struct DecoderBuffer *src_buffer, uint32_t *out_values)',
     'subst': [(r'SymbolDecoderT decoder;', 'struct GSD decoder; GSD_ctor(&decoder);', 1), (r'decoder\.Create\(src_buffer\)', 'GSD_Create(&decoder, src_buffer)', 1), (r'decoder\.num_symbols\(\)', 'GSD_num_symbols(&decoder)', 1),
               (r'decoder\.StartDecoding\(src_buffer\)', 'GSD_StartDecoding(&decoder, src_buffer)', 1), (r'decoder\.DecodeSymbol\(\)', 'GSD_DecodeSymbol(&decoder)', 1), (r'decoder\.EndDecoding\(\)', 'GSD_EndDecoding(&decoder)', 1)],
     'loops': {0: '__CPROVER_assigns(i, decoder.decoded, __CPROVER_object_whole(out_values))\n__CPROVER_loop_invariant(i <= num_values && decoder.decoded == i && decoder.started == 1 && decoder.num_symbols >= 1)\n'
                  '__CPROVER_loop_invariant(ghost_len >= i || ghost_len >= num_values || out_values[ghost_len] == GSD_SYMBOL(ghost_len))\n__CPROVER_decreases(num_values - i)'}},
    {'name': 'DecodeTaggedSymbols', 'file': E + 'symbol_decoding.cc',
     'anchor': r'template <template <int> class SymbolDecoderT>\s*bool DecodeTaggedSymbols\(uint32_t num_values, int num_components,\s*DecoderBuffer \*src_buffer, uint32_t \*out_values\)\s*\{',
     'sig': 'bool DecodeTaggedSymbols(uint32_t num_values, int num_components, struct DecoderBuffer *src_buffer, uint32_t *out_values)',
     'subst': [(r'SymbolDecoderT<5> tag_decoder;', 'struct GSD tag_decoder; GSD_ctor(&tag_decoder);', 1), (r'tag_decoder\.Create\(src_buffer\)', 'GSD_Create(&tag_decoder, src_buffer)', 1),
               (r'tag_decoder\.num_symbols\(\)', 'GSD_num_symbols(&tag_decoder)', 1), (r'tag_decoder\.StartDecoding\(src_buffer\)', 'GSD_StartDecoding(&tag_decoder, src_buffer)', 1),
               (r'tag_decoder\.DecodeSymbol\(\)', 'GSD_DecodeSymbol(&tag_decoder)', 1), (r'tag_decoder\.EndDecoding\(\)', 'GSD_EndDecoding(&tag_decoder)', 1),
               (r'src_buffer->StartBitDecoding\(false, nullptr\)', 'GBITS_Start(src_buffer)', 1), (r'src_buffer->DecodeLeastSignificantBits32\(bit_length, &val\)', 'GBITS_Decode(src_buffer, bit_length, &val)', 1),
               (r'src_buffer->EndBitDecoding\(\)', 'GBITS_End(src_buffer)', 1)],
     'loops': {0: '__CPROVER_assigns(i, value_id, tag_decoder.decoded, ghost_bits_read, __CPROVER_object_whole(out_values))\n'
                  '__CPROVER_loop_invariant(i <= num_values && i % (uint32_t)num_components == 0 && value_id == (int)i && tag_decoder.started == 1 && tag_decoder.num_symbols >= 1 && ghost_bits_mode == 1)\n'
                  '__CPROVER_decreases(num_values - i)',
               1: '__CPROVER_assigns(j, value_id, ghost_bits_read, __CPROVER_object_whole(out_values))\n'
                  '__CPROVER_loop_invariant(0 <= j && j <= num_components && value_id == (int)i + j && ghost_bits_mode == 1)\n__CPROVER_decreases(num_components - j)'}},
]
UNIT = {'name': 'symbols', 'structs': [], 'consts': [
            {'const': 'SYMBOL_CODING_TAGGED', 'file': 'src/draco/compression/config/compression_shared.h', 'regex': r'SYMBOL_CODING_TAGGED = (\d+),'},
            {'const': 'SYMBOL_CODING_RAW', 'file': 'src/draco/compression/config/compression_shared.h', 'regex': r'SYMBOL_CODING_RAW = (\d+),'}],
        'functions': functions,
        'pre_text': ['struct vec_prob { uint32_t *data; size_t size; size_t cap; };',
                     '/* ghost symbol decoder / bit reader used by the two symbol loops (contracts in contracts/symbols.c) */\nstruct GSD { int created; int started; int ended; uint32_t num_symbols; uint32_t decoded; };\nstruct DecoderBuffer;\n'
                     'void GSD_ctor(struct GSD *d); bool GSD_Create(struct GSD *d, struct DecoderBuffer *b); uint32_t GSD_num_symbols(const struct GSD *d); bool GSD_StartDecoding(struct GSD *d, struct DecoderBuffer *b);\n'
                     'uint32_t GSD_DecodeSymbol(struct GSD *d); void GSD_EndDecoding(struct GSD *d); void GBITS_Start(struct DecoderBuffer *b); bool GBITS_Decode(struct DecoderBuffer *b, uint32_t nbits, uint32_t *v); void GBITS_End(struct DecoderBuffer *b);',
                     '/* RAnsSymbolDecoder<B>: probability table, symbol count, rANS decoder (precision = ComputeRAnsPrecisionFromUniqueSymbolsBitLength(B) = RANS_P of the job) */\n'
                     'struct RSE { struct vec_sym probability_table_; uint32_t num_symbols_; };\n'
                     'struct RSD { struct vec_prob probability_table_; uint32_t num_symbols_; struct RAnsDecoder *ans_; /* embedded member modelled as a separately allocated object */ int64_t remaining_at_entry; };']}
SRC = 'contracts/symbols.c'
DEFS = ['-DDRACO_BACKWARDS_COMPATIBILITY_SUPPORTED', '-DRANS_P=12']
SHL24 = (r'arithmetic overflow on signed shl in \(signed int\)mem\[\(signed long int\)3\] << 24',
         'C-vs-C++ difference: uint8_t promoted to int and shifted by 24 may set the sign bit; undefined in C11, defined in C++11 and later (CWG 1457). Shift-distance check stays enabled.')
JOBS = []
def J(id, entry, props, enforce=None, replace=(), loops=False, unwind=None, unwind_reason=None, **kw):
    j = {'id': 'symbols.' + id, 'src': SRC, 'entry': entry, 'enforce': enforce, 'replace': list(replace), 'loops': loops,
         'unwind': unwind, 'unwind_reason': unwind_reason, 'props': props, 'defines': DEFS}
    j.update(kw); JOBS.append(j); return j
TYPES_PRELUDE = ['vec_ans.h', 'core_types.h', 'ans_types.h']
NATIVE_TYPES_PRE = '#define rans_precision_bits_t 12\n'
COSIM = True
NATIVE_SOURCES = []
NATIVE_DEFS = ['-DRANS_P=12']
NATIVE_SLICE_PRE = '#define rans_precision_bits_t RANS_P\nextern uint32_t ghost_rem, ghost_sym; extern int ghost_k;\n'

J('ComputeRAnsPrecision.contract', 'h_enf_ComputeRAnsPrecision', ['C08', 'C05'], enforce='ComputeRAnsPrecisionFromUniqueSymbolsBitLength')
J('precision_table', 'h_precision_table', ['C05', 'C08'])
J('Create.alloc_guard', 'h_rsd_create', ['C08', 'C18', 'C02'], defines=DEFS + ['-DCREATE_PREFIX'], unwind=12,
  unwind_reason='varint recursion <= 5 (+ scalar reads); every path ends at the allocation, no input-length loop is entered; unwinding assertions on', no_vacuity=True)
J('Create.bounded', 'h_rsd_create', ['C08', 'C02'], defines=DEFS + ['-DCREATE_MAXBYTES=4'], unwind=66, solver='cadical',
  unwind_reason='bounded: at most 4 input bytes after the reader position (<= 3 table tokens, zero runs <= 64 symbols each); look-up table builder by contract',
  replace=['RAnsDecoder_rans_build_look_up_table'], timeout=3000, cost=8, cbmc=['--object-bits', '10'], tier='thorough', may_time_out=True)
J('Create.zero_run.contract', 'h_enf_RSD_Create_zero_run', ['C08', 'C02', 'C18'], enforce='RSD_Create_zero_run', loops=True)
J('table.entry.rt', 'h_table_entry_rt', ['C08', 'C05'], unwind=10, unwind_reason='at most 2 extra bytes per probability (22 bits), varint-free; byte appends of the vector model; unwinding assertions on')
J('table.zero_run.rt', 'h_table_zero_run_rt', ['C08'], unwind=68, unwind_reason='bounded: a table of 66 entries (a zero run covers at most 64); unwinding assertions on', timeout=900, cost=4)
J('DecodeRawSymbols.contract', 'h_enf_DecodeRawSymbols', ['C08', 'C05', 'C02'], enforce='DecodeRawSymbols', replace=['DecoderBuffer_Decode_u8', 'DecodeRawSymbolsInternal_b'], cbmc=['--object-bits', '10'])
J('DecodeSymbols.contract', 'h_enf_DecodeSymbols', ['C08', 'C05', 'C02'], enforce='DecodeSymbols', replace=['DecoderBuffer_Decode_u8', 'DecodeRawSymbols', 'DecodeTaggedSymbols_stub'])
J('StartDecoding', 'h_rsd_start', ['C08', 'C02', 'C18', 'C06'], ignore=[SHL24], unwind=14, unwind_reason='varint recursion <= 11 (uint64); no input-length loop; unwinding assertions on')
J('DecodeRawSymbolsInternal.contract', 'h_enf_DecodeRawSymbolsInternal', ['C08', 'C02'], enforce='DecodeRawSymbolsInternal', loops=True, cbmc=['--object-bits', '10'],
  replace=['GSD_ctor', 'GSD_Create', 'GSD_num_symbols', 'GSD_StartDecoding', 'GSD_DecodeSymbol', 'GSD_EndDecoding'])
for nc in (1, 2, 3, 4):   # tiled over the component count (a symbolic stride makes the divisibility invariant a division by a variable: no answer in 10 min)
    J('DecodeTaggedSymbols.contract.nc%d' % nc, 'h_enf_DecodeTaggedSymbols', ['C08', 'C02'], enforce='DecodeTaggedSymbols', loops=True, cbmc=['--object-bits', '10'], defines=DEFS + ['-DTAG_NC=%d' % nc],
      replace=['GSD_ctor', 'GSD_Create', 'GSD_num_symbols', 'GSD_StartDecoding', 'GSD_DecodeSymbol', 'GSD_EndDecoding', 'GBITS_Start', 'GBITS_Decode', 'GBITS_End'], no_vacuity=nc > 1)
ASSUMPTIONS = ['DecodeRawSymbolsInternal / DecodeTaggedSymbols: the symbol decoder object is a ghost (GSD_*: Create before StartDecoding before DecodeSymbol; DecodeSymbol REQUIRES a started decoder with at least one symbol -- the precondition of rans_read, unit ans); the bit reader of the tagged scheme is a ghost too (GBITS_*); what is proved is the control flow, the index arithmetic into out_values and that exactly num_values symbols are produced in order',
               'RAnsSymbolDecoder<B> is instantiated through -DRANS_P = ComputeRAnsPrecisionFromUniqueSymbolsBitLength(B) (the function itself is under contract and pinned to the frozen table)',
               'probability_table_.resize is a contract-only stub carrying the C18 bound; the template-template dispatch DecodeRawSymbolsInternal<SymbolDecoderT<k>> is rewritten to a stub that records k in ghost state',
               'DecodeTaggedSymbols / DecodeRawSymbolsInternal bodies (loops over DecodeSymbol) are not under contract: their per-symbol step is ans.rans_read; precondition num_values % num_components == 0 of the tagged loop is a caller obligation']
