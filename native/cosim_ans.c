/* Co-simulation driver for unit 'ans' (P = RANS_P, default 12) + EXHAUSTIVE check of fastdiv over its whole contract domain. */
#include "cosim.h"
#include "vec.h"
#include "vec_ans.h"
#include "core_types.h"
#ifndef RANS_P
#define RANS_P 12
#endif
#define rans_precision_bits_t RANS_P
#define vp10_fastdiv_tab cosim_unused_tab
#include "ans_types.h"
void vec_u32_resize(struct vec_u32 *v, size_t n) { if (n > v->cap) { printf("cap!\n"); exit(2); } for (size_t i = v->size; i < n; ++i) v->data[i] = 0; v->size = n; }
void vec_sym_resize(struct vec_sym *v, size_t n) { if (n > v->cap) { printf("cap!\n"); exit(2); } for (size_t i = v->size; i < n; ++i) { v->data[i].prob = 0; v->data[i].cum_prob = 0; } v->size = n; }
#define BOTH(ret, name, ...) ret name(__VA_ARGS__); ret slice_##name(__VA_ARGS__);
BOTH(unsigned, fastdiv, unsigned, int)
BOTH(uint32_t, mem_get_le16, const void *) BOTH(uint32_t, mem_get_le24, const void *) BOTH(uint32_t, mem_get_le32, const void *)
BOTH(void, mem_put_le16, void *, uint32_t) BOTH(void, mem_put_le24, void *, uint32_t) BOTH(void, mem_put_le32, void *, uint32_t)
BOTH(int, ans_write_end, struct AnsCoder *) BOTH(void, rabs_desc_write, struct AnsCoder *, int, AnsP8) BOTH(int, rabs_desc_read, struct AnsDecoder *, AnsP8)
BOTH(int, ans_read_init, struct AnsDecoder *, const uint8_t *, int)
BOTH(int, RAnsEncoder_write_end, struct RAnsEncoder *) BOTH(void, RAnsEncoder_rans_write, struct RAnsEncoder *, const struct rans_sym *)
BOTH(int, RAnsDecoder_read_init, struct RAnsDecoder *, const uint8_t *, int) BOTH(int, RAnsDecoder_rans_read, struct RAnsDecoder *)
BOTH(bool, RAnsDecoder_rans_build_look_up_table, struct RAnsDecoder *, const uint32_t *, uint32_t)
#define PREC (1u << RANS_P)
static uint32_t lut1[1u << RANS_P], lut2[1u << RANS_P]; static struct rans_sym pt1[64], pt2[64];
COSIM_MAIN_BEGIN
  COSIM_BEGIN("fastdiv (EXHAUSTIVE: all x < 2^20, all y in 1..255, real vs slice vs x/y)");
  { long bad = 0; for (int y = 1; y <= 255; ++y) for (unsigned x = 0; x < (1u << 20); ++x) { unsigned q = fastdiv(x, y); if (q != x / (unsigned)y || q != slice_fastdiv(x, y)) ++bad; }
    COSIM_EQ(bad, 0, "fastdiv exhaustive"); cosim_vectors += 255L * (1 << 20) - 1; printf("  fastdiv-exhaustive pairs=%ld mismatches=%ld\n", 255L * (1 << 20), bad); }
  COSIM_END();
  COSIM_BEGIN("mem_get/put_le16/24/32");
  for (long i = 0; i < iters; ++i) { uint8_t b[8]; for (int k = 0; k < 8; ++k) b[k] = (uint8_t)rnd64(); COSIM_EQ(mem_get_le16(b), slice_mem_get_le16(b), "g16"); COSIM_EQ(mem_get_le24(b), slice_mem_get_le24(b), "g24"); COSIM_EQ(mem_get_le32(b), slice_mem_get_le32(b), "g32");
    uint8_t o1[8] = {0}, o2[8] = {0}; uint32_t v = (uint32_t)rnd_biased(); mem_put_le16(o1, v); slice_mem_put_le16(o2, v); mem_put_le24(o1 + 2, v); slice_mem_put_le24(o2 + 2, v); COSIM_MEMEQ(o1, o2, 8, "p16/24"); mem_put_le32(o1 + 4, v); slice_mem_put_le32(o2 + 4, v); COSIM_MEMEQ(o1, o2, 8, "p32"); }
  COSIM_END();
  COSIM_BEGIN("rabs_desc_write/read, ans_write_end/ans_read_init");
  for (long i = 0; i < iters * 8; ++i) { uint8_t b1[16] = {0}, b2[16] = {0}; uint32_t st = 4096 + (uint32_t)(rnd64() % (4096u * 255u)); AnsP8 p0 = 1 + rnd64() % 255; int v = rnd64() & 1;
    struct AnsCoder a = {b1, 1, st}, b = {b2, 1, st}; rabs_desc_write(&a, v, p0); slice_rabs_desc_write(&b, v, p0); COSIM_EQ(a.state, b.state, "w.state"); COSIM_EQ(a.buf_offset, b.buf_offset, "w.off"); COSIM_MEMEQ(b1, b2, 16, "w.bytes");
    struct AnsDecoder r1 = {b1, a.buf_offset, (rnd64() & 3) ? a.state : (uint32_t)rnd64() % (1u << 20)}, r2 = {b2, r1.buf_offset, r1.state};
    COSIM_EQ(rabs_desc_read(&r1, p0), slice_rabs_desc_read(&r2, p0), "r.bit"); COSIM_EQ(r1.state, r2.state, "r.state"); COSIM_EQ(r1.buf_offset, r2.buf_offset, "r.off");
    a.state = b.state = st; a.buf_offset = b.buf_offset = 2; int e1 = ans_write_end(&a), e2 = slice_ans_write_end(&b); COSIM_EQ(e1, e2, "end"); COSIM_MEMEQ(b1, b2, 16, "end.bytes");
    for (int k = 0; k < 16; ++k) if (rnd64() % 4 == 0) b1[k] = b2[k] = (uint8_t)rnd64(); int off = (int)(rnd64() % 8) - 1; struct AnsDecoder q1 = {0, 0, 0}, q2 = {0, 0, 0};
    COSIM_EQ(ans_read_init(&q1, b1 + 4, off), slice_ans_read_init(&q2, b2 + 4, off), "init.rc"); COSIM_EQ(q1.state, q2.state, "init.state"); COSIM_EQ(q1.buf_offset, q2.buf_offset, "init.off"); }
  COSIM_END();
  COSIM_BEGIN("RAnsEncoder/RAnsDecoder<P>: rans_write/write_end/read_init/rans_build_look_up_table/rans_read");
  for (long i = 0; i < iters; ++i) { uint32_t probs[64]; uint32_t n = 1 + rnd64() % 40; uint32_t left = PREC; 
    for (uint32_t k = 0; k < n; ++k) { uint32_t p = (k == n - 1) ? left : (uint32_t)(rnd64() % (left / 2 + 1)); if (rnd64() % 16 == 0) p = (uint32_t)rnd64() % (PREC + 5); probs[k] = p; left = p <= left ? left - p : 0; }
    struct RAnsDecoder d1, d2; memset(&d1, 0, sizeof d1); memset(&d2, 0, sizeof d2); d1.lut_table_.data = lut1; d1.lut_table_.cap = PREC; d2.lut_table_.data = lut2; d2.lut_table_.cap = PREC;
    d1.probability_table_.data = pt1; d1.probability_table_.cap = 64; d2.probability_table_.data = pt2; d2.probability_table_.cap = 64;
    bool k1 = RAnsDecoder_rans_build_look_up_table(&d1, probs, n), k2 = slice_RAnsDecoder_rans_build_look_up_table(&d2, probs, n); COSIM_EQ(k1, k2, "lut.ret");
    if (!k1 || !k2) continue; COSIM_MEMEQ(lut1, lut2, PREC * 4, "lut"); COSIM_MEMEQ(pt1, pt2, n * sizeof(struct rans_sym), "pt");
    uint8_t b1[64] = {0}, b2[64] = {0}; struct RAnsEncoder e1, e2; e1.ans_.buf = b1 + 4; e1.ans_.buf_offset = 0; e1.ans_.state = 4 * PREC; e2 = e1; e2.ans_.buf = b2 + 4; int syms[12]; int ns = rnd64() % 12;
    for (int k = 0; k < ns; ++k) { uint32_t s; do { s = rnd64() % n; } while (pt1[s].prob == 0); syms[k] = s; RAnsEncoder_rans_write(&e1, &pt1[s]); slice_RAnsEncoder_rans_write(&e2, &pt2[s]); COSIM_EQ(e1.ans_.state, e2.ans_.state, "write.state"); }
    int w1 = RAnsEncoder_write_end(&e1), w2 = slice_RAnsEncoder_write_end(&e2); COSIM_EQ(w1, w2, "write_end"); COSIM_MEMEQ(b1, b2, 64, "stream");
    COSIM_EQ(RAnsDecoder_read_init(&d1, b1 + 4, w1), slice_RAnsDecoder_read_init(&d2, b2 + 4, w2), "read_init"); COSIM_EQ(d1.ans_.state, d2.ans_.state, "init.state");
    for (int k = ns - 1; k >= -2; --k) { int s1 = RAnsDecoder_rans_read(&d1), s2 = slice_RAnsDecoder_rans_read(&d2); COSIM_EQ(s1, s2, "read.sym"); COSIM_EQ(d1.ans_.state, d2.ans_.state, "read.state"); if (k >= 0) COSIM_EQ(s1, syms[k], "roundtrip"); } }
  COSIM_END();
COSIM_MAIN_END
