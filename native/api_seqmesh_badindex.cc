// Native replay through the public API: sequentially encoded 2-face/4-point mesh;
// one stored face index is overwritten with a value >= num_points. A decoder that
// satisfies C03 must either fail or return only indices < num_points.
// usage: api_seqmesh_badindex [compressed(0|1)]   exit 0 = property holds, 1 = violated, 2 = setup error
#include <cstdio>
#include <cstdlib>
#include <cstring>
#include <vector>
#include "draco/compression/encode.h"
#include "draco/compression/decode.h"
#include "draco/mesh/triangle_soup_mesh_builder.h"
using namespace draco;
static int check(const char *data, size_t n, const char *what) {
  DecoderBuffer db; db.Init(data, n);
  Decoder dec;
  auto r = dec.DecodeMeshFromBuffer(&db);
  if (!r.ok()) { printf("%s: decode rejected (%s)\n", what, r.status().error_msg()); return 0; }
  auto m = std::move(r).value();
  int bad = 0;
  for (FaceIndex f(0); f < m->num_faces(); ++f)
    for (int j = 0; j < 3; ++j)
      if (m->face(f)[j].value() >= m->num_points()) { if (!bad) printf("%s: decode OK, num_points=%u but face %u has index %u\n", what, m->num_points(), f.value(), m->face(f)[j].value()); ++bad; }
  if (!bad && strncmp(what, "tampered(c", 10)) printf("%s: decode OK, all indices < num_points=%u\n", what, m->num_points());
  return bad ? 1 : 0;
}
int main(int argc, char **argv) {
  TriangleSoupMeshBuilder b; b.Start(2);
  int pa = b.AddAttribute(GeometryAttribute::POSITION, 3, DT_FLOAT32);
  float P[4][3] = {{0,0,0},{1,0,0},{0,1,0},{1,1,0}};
  b.SetAttributeValuesForFace(pa, FaceIndex(0), P[0], P[1], P[2]);
  b.SetAttributeValuesForFace(pa, FaceIndex(1), P[2], P[1], P[3]);
  auto mesh = b.Finalize();
  int rc = 0;
  for (int compressed = 0; compressed < 2; ++compressed) {
    Encoder enc; enc.SetEncodingMethod(MESH_SEQUENTIAL_ENCODING);
    if (compressed) enc.options().SetGlobalBool("compress_connectivity", true);
    EncoderBuffer eb;
    if (!enc.EncodeMeshToBuffer(*mesh, &eb).ok()) { printf("encode failed\n"); return 2; }
    std::vector<char> d(eb.data(), eb.data() + eb.size());
    rc |= check(d.data(), d.size(), compressed ? "valid(compressed)" : "valid(raw)");
    // header: "DRACO" maj min type method flags(2) = 11 bytes; then varint num_faces, varint num_points, method byte.
    size_t off = 11 + 1 + 1;
    printf("connectivity_method byte=%d\n", d[off]);
    if (d[off] != 0) {  // raw uint8 indices follow
      std::vector<char> t = d; t[off + 1] = (char)200;
      rc |= check(t.data(), t.size(), "tampered(raw index=200)");
    } else {
      // compressed indices: flip bytes in the symbol payload until a decode succeeds with changed faces
      for (size_t k = off + 1; k < d.size() && k < off + 40; ++k)
        for (int v = 1; v < 256; v += 7) { std::vector<char> t = d; t[k] = (char)(t[k] ^ v); int r = check(t.data(), t.size(), "tampered(compressed)"); if (r) { printf("  at byte %zu xor %d\n", k, v); rc |= r; goto done; } }
      done:;
    }
  }
  return rc;
}
