/* Co-simulation driver for unit 'core': real_* = the real C++ function (through shims_core.cc),
 * slice_* = the sliced text compiled by gcc.  Same inputs, outputs and final states compared. */
#include "cosim.h"
#include "vec.h"
#include "core_types.h"
#define BOTH(ret, name, ...) ret name(__VA_ARGS__); ret slice_##name(__VA_ARGS__);
#define ZZD(W, ST, UT) BOTH(UT, S2U_i##W, ST) BOTH(ST, U2S_u##W, UT)
ZZD(8, int8_t, uint8_t) ZZD(16, int16_t, uint16_t) ZZD(32, int32_t, uint32_t) ZZD(64, int64_t, uint64_t)
BOTH(int, MostSignificantBit, uint32_t) BOTH(int, CountOneBits32, uint32_t) BOTH(uint32_t, ReverseBits32, uint32_t) BOTH(void, CopyBits32, uint32_t *, int, uint32_t, int, int)
BOTH(void, ConvertSignedIntsToSymbols, const int32_t *, int, uint32_t *)
BOTH(void, ConvertSymbolsToSignedInts, const uint32_t *, int, int32_t *)
#define DBD(SFX, T) BOTH(bool, DecoderBuffer_Peek_##SFX, struct DecoderBuffer *, T *) BOTH(bool, DecoderBuffer_Decode_##SFX, struct DecoderBuffer *, T *) \
  BOTH(bool, EncoderBuffer_Encode_##SFX, struct EncoderBuffer *, const T *)
DBD(u8, uint8_t) DBD(u16, uint16_t) DBD(u32, uint32_t) DBD(u64, uint64_t) DBD(i8, int8_t) DBD(i16, int16_t) DBD(i32, int32_t) DBD(i64, int64_t) DBD(f32, float)
BOTH(bool, DecoderBuffer_DecodeBytes, struct DecoderBuffer *, void *, size_t)
BOTH(bool, DecoderBuffer_PeekBytes, struct DecoderBuffer *, void *, size_t)
BOTH(bool, DecoderBuffer_StartBitDecoding, struct DecoderBuffer *, bool, uint64_t *)
BOTH(void, DecoderBuffer_EndBitDecoding, struct DecoderBuffer *)
BOTH(bool, DecoderBuffer_DecodeLeastSignificantBits32, struct DecoderBuffer *, uint32_t, uint32_t *)
BOTH(bool, BitDecoder_GetBits, struct BitDecoder *, uint32_t, uint32_t *)
BOTH(uint32_t, BitDecoder_EnsureBits, struct BitDecoder *, int)
BOTH(void, BitDecoder_ConsumeBits, struct BitDecoder *, int)
BOTH(uint64_t, BitDecoder_AvailBits, const struct BitDecoder *)
BOTH(bool, EncoderBuffer_EncodeBytes, struct EncoderBuffer *, const void *, size_t)
#define VID(SFX, T) BOTH(bool, DecodeVarint_##SFX, T *, struct DecoderBuffer *) BOTH(bool, EncodeVarint_##SFX, T, struct EncoderBuffer *)
VID(u8, uint8_t) VID(u16, uint16_t) VID(u32, uint32_t) VID(u64, uint64_t) VID(i8, int8_t) VID(i16, int16_t) VID(i32, int32_t) VID(i64, int64_t)

static uint8_t buf[64];
static void fill_buf(int n) { for (int i = 0; i < n; ++i) { uint64_t r = rnd64(); buf[i] = (r & 3) == 0 ? 0x80 | (uint8_t)(r >> 8) : (r & 3) == 1 ? 0xff : (uint8_t)(r >> 8); } }
static struct DecoderBuffer mkdb(int n, int pos, uint16_t ver) { struct DecoderBuffer d; memset(&d, 0, sizeof d); d.data_ = (const char *)buf; d.data_size_ = n; d.pos_ = pos; d.bitstream_version_ = ver; return d; }
static struct EncoderBuffer mkeb(char *store, int cap, int size) { struct EncoderBuffer e; memset(&e, 0, sizeof e); e.buffer_.data = store; e.buffer_.cap = cap; e.buffer_.size = size; return e; }

#define ZZT(W, ST, UT) COSIM_BEGIN("S2U_i" #W "/U2S_u" #W); for (long i = 0; i < iters * 8; ++i) { uint64_t r = rnd_biased(); ST v = (ST)r; UT u = (UT)r; \
    COSIM_EQ(S2U_i##W(v), slice_S2U_i##W(v), "S2U"); COSIM_EQ(U2S_u##W(u), slice_U2S_u##W(u), "U2S"); } COSIM_END();
#define DBT(SFX, T) COSIM_BEGIN("DecoderBuffer_Peek/Decode_" #SFX); for (long i = 0; i < iters; ++i) { int n = rnd64() % 24; fill_buf(24); int pos = n ? rnd64() % (n + 1) : 0; \
    struct DecoderBuffer a = mkdb(n, pos, 0), b = a; T x, y; memset(&x, 0x5a, sizeof x); memset(&y, 0x5a, sizeof y); \
    COSIM_EQ(DecoderBuffer_Peek_##SFX(&a, &x), slice_DecoderBuffer_Peek_##SFX(&b, &y), "ret"); COSIM_MEMEQ(&x, &y, sizeof x, "out"); COSIM_EQ(a.pos_, b.pos_, "pos"); \
    COSIM_EQ(DecoderBuffer_Decode_##SFX(&a, &x), slice_DecoderBuffer_Decode_##SFX(&b, &y), "ret"); COSIM_MEMEQ(&x, &y, sizeof x, "out"); COSIM_EQ(a.pos_, b.pos_, "pos"); } COSIM_END(); \
  COSIM_BEGIN("EncoderBuffer_Encode_" #SFX); for (long i = 0; i < iters; ++i) { char s1[32], s2[32]; memset(s1, 0x11, 32); memset(s2, 0x11, 32); int sz = rnd64() % 8; \
    struct EncoderBuffer a = mkeb(s1, 32, sz), b = mkeb(s2, 32, sz); if (rnd64() % 8 == 0) { a.bit_encoder_reserved_bytes_ = b.bit_encoder_reserved_bytes_ = 4; } \
    uint64_t r = rnd_biased(); T v; memcpy(&v, &r, sizeof v); COSIM_EQ(EncoderBuffer_Encode_##SFX(&a, &v), slice_EncoderBuffer_Encode_##SFX(&b, &v), "ret"); \
    COSIM_EQ(a.buffer_.size, b.buffer_.size, "size"); COSIM_MEMEQ(s1, s2, 32, "bytes"); } COSIM_END();
#define VIT(SFX, T) COSIM_BEGIN("DecodeVarint_" #SFX); for (long i = 0; i < iters * 4; ++i) { int n = rnd64() % 14; fill_buf(16); int pos = n ? rnd64() % (n + 1) : 0; \
    struct DecoderBuffer a = mkdb(n, pos, 0), b = a; T x, y; memset(&x, 0x5a, sizeof x); memset(&y, 0x5a, sizeof y); \
    bool r1 = DecodeVarint_##SFX(&x, &a), r2 = slice_DecodeVarint_##SFX(&y, &b); COSIM_EQ(r1, r2, "ret"); if (r1 && r2) COSIM_MEMEQ(&x, &y, sizeof x, "out"); COSIM_EQ(a.pos_, b.pos_, "pos"); } COSIM_END(); \
  COSIM_BEGIN("EncodeVarint_" #SFX); for (long i = 0; i < iters * 4; ++i) { char s1[32], s2[32]; memset(s1, 0x11, 32); memset(s2, 0x11, 32); int sz = rnd64() % 8; \
    struct EncoderBuffer a = mkeb(s1, 32, sz), b = mkeb(s2, 32, sz); T v = (T)rnd_biased(); COSIM_EQ(EncodeVarint_##SFX(v, &a), slice_EncodeVarint_##SFX(v, &b), "ret"); \
    COSIM_EQ(a.buffer_.size, b.buffer_.size, "size"); COSIM_MEMEQ(s1, s2, 32, "bytes"); } COSIM_END();

COSIM_MAIN_BEGIN
  ZZT(8, int8_t, uint8_t) ZZT(16, int16_t, uint16_t) ZZT(32, int32_t, uint32_t) ZZT(64, int64_t, uint64_t)
  COSIM_BEGIN("MostSignificantBit/CountOneBits32/ReverseBits32/CopyBits32");
  for (long i = 0; i < iters * 4; ++i) { uint32_t n = (uint32_t)rnd_biased(); if (n) COSIM_EQ(MostSignificantBit(n), slice_MostSignificantBit(n), "msb");
    COSIM_EQ(CountOneBits32(n), slice_CountOneBits32(n), "popcount"); COSIM_EQ(ReverseBits32(n), slice_ReverseBits32(n), "reverse");
    int nb = 1 + rnd64() % 32, dof = rnd64() % (33 - nb), sof = rnd64() % (33 - nb); uint32_t d1 = (uint32_t)rnd64(), d2 = d1; CopyBits32(&d1, dof, n, sof, nb); slice_CopyBits32(&d2, dof, n, sof, nb); COSIM_EQ(d1, d2, "copybits"); }
  COSIM_END();
  COSIM_BEGIN("ConvertSignedIntsToSymbols/ConvertSymbolsToSignedInts");
  for (long i = 0; i < iters; ++i) { int32_t in[9]; uint32_t o1[9], o2[9], uin[9]; int32_t s1[9], s2[9]; int n = rnd64() % 10;
    for (int k = 0; k < 9; ++k) { in[k] = (int32_t)rnd_biased(); uin[k] = (uint32_t)rnd_biased(); o1[k] = o2[k] = 7; s1[k] = s2[k] = 7; }
    ConvertSignedIntsToSymbols(in, n, o1); slice_ConvertSignedIntsToSymbols(in, n, o2); COSIM_MEMEQ(o1, o2, sizeof o1, "out");
    ConvertSymbolsToSignedInts(uin, n, s1); slice_ConvertSymbolsToSignedInts(uin, n, s2); COSIM_MEMEQ(s1, s2, sizeof s1, "out"); }
  COSIM_END();
  DBT(u8, uint8_t) DBT(u16, uint16_t) DBT(u32, uint32_t) DBT(u64, uint64_t) DBT(i8, int8_t) DBT(i16, int16_t) DBT(i32, int32_t) DBT(i64, int64_t) DBT(f32, float)
  COSIM_BEGIN("DecoderBuffer_DecodeBytes/PeekBytes");
  for (long i = 0; i < iters; ++i) { int n = rnd64() % 24; fill_buf(24); int pos = n ? rnd64() % (n + 1) : 0; size_t k = rnd64() % 28; char o1[32], o2[32]; memset(o1, 3, 32); memset(o2, 3, 32);
    struct DecoderBuffer a = mkdb(n, pos, 0), b = a;
    COSIM_EQ(DecoderBuffer_PeekBytes(&a, o1, k), slice_DecoderBuffer_PeekBytes(&b, o2, k), "ret"); COSIM_MEMEQ(o1, o2, 32, "out");
    COSIM_EQ(DecoderBuffer_DecodeBytes(&a, o1, k), slice_DecoderBuffer_DecodeBytes(&b, o2, k), "ret"); COSIM_MEMEQ(o1, o2, 32, "out"); COSIM_EQ(a.pos_, b.pos_, "pos"); }
  COSIM_END();
  VIT(u8, uint8_t) VIT(u16, uint16_t) VIT(u32, uint32_t) VIT(u64, uint64_t) VIT(i8, int8_t) VIT(i16, int16_t) VIT(i32, int32_t) VIT(i64, int64_t)
  COSIM_BEGIN("DecoderBuffer bit mode: StartBitDecoding/DecodeLeastSignificantBits32/EnsureBits/ConsumeBits/AvailBits/EndBitDecoding");
  for (long i = 0; i < iters; ++i) { int n = rnd64() % 24; fill_buf(24); int pos = n ? rnd64() % (n + 1) : 0; uint16_t ver = (rnd64() & 1) ? 0x0201 : 0x0202;
    struct DecoderBuffer a = mkdb(n, pos, ver), b = a; bool ds = rnd64() & 1; uint64_t z1 = 9, z2 = 9;
    bool r1 = DecoderBuffer_StartBitDecoding(&a, ds, &z1), r2 = slice_DecoderBuffer_StartBitDecoding(&b, ds, &z2); COSIM_EQ(r1, r2, "start.ret"); COSIM_EQ(z1, z2, "start.size"); COSIM_EQ(a.pos_, b.pos_, "start.pos");
    if (!r1 || !r2) continue;
    for (int k = 0; k < 6; ++k) { uint32_t nb = rnd64() % 36; uint32_t v1 = 5, v2 = 5;
      COSIM_EQ(DecoderBuffer_DecodeLeastSignificantBits32(&a, nb, &v1), slice_DecoderBuffer_DecodeLeastSignificantBits32(&b, nb, &v2), "lsb.ret"); COSIM_EQ(v1, v2, "lsb.val");
      COSIM_EQ(a.bit_decoder_.bit_offset_, b.bit_decoder_.bit_offset_, "bit_offset");
      int e = rnd64() % 25; COSIM_EQ(BitDecoder_EnsureBits(&a.bit_decoder_, e), slice_BitDecoder_EnsureBits(&b.bit_decoder_, e), "ensure");
      COSIM_EQ(BitDecoder_AvailBits(&a.bit_decoder_), slice_BitDecoder_AvailBits(&b.bit_decoder_), "avail");
      int c = rnd64() % 9; BitDecoder_ConsumeBits(&a.bit_decoder_, c); slice_BitDecoder_ConsumeBits(&b.bit_decoder_, c); }
    DecoderBuffer_EndBitDecoding(&a); slice_DecoderBuffer_EndBitDecoding(&b); COSIM_EQ(a.pos_, b.pos_, "end.pos"); COSIM_EQ(a.bit_mode_, b.bit_mode_, "end.mode"); }
  COSIM_END();
COSIM_MAIN_END
