/* helpers for co-simulation drivers: deterministic PRNG with boundary bias, comparison bookkeeping */
#ifndef COSIM_H
#define COSIM_H
#include <stdint.h>
#include <stdio.h>
#include <stdlib.h>
#include <string.h>
#include <stdbool.h>
static uint64_t rng_s;
static inline uint64_t rnd64(void) { rng_s ^= rng_s << 13; rng_s ^= rng_s >> 7; rng_s ^= rng_s << 17; return rng_s; }
static inline uint64_t rnd_biased(void) {
  uint64_t r = rnd64();
  switch (r % 8) {
    case 0: { static const uint64_t b[] = {0, 1, 2, 0x7f, 0x80, 0xff, 0x100, 0x7fff, 0x8000, 0xffff, 0x10000, 0x7fffffffull, 0x80000000ull, 0xffffffffull, 0x100000000ull, 0x7fffffffffffffffull, 0x8000000000000000ull, 0xffffffffffffffffull, 0x3fff, 0x4000, 0x1fffff, 0x200000};
              return b[(r >> 8) % (sizeof b / sizeof b[0])] + ((r >> 16) % 3) - 1; }
    case 1: return (r >> 8) & 0xff;
    case 2: return (r >> 8) & 0xffff;
    case 3: return (uint64_t)1 << ((r >> 8) % 64);
    case 4: return ~((uint64_t)1 << ((r >> 8) % 64));
    default: return rnd64();
  }
}
static long cosim_vectors, cosim_mismatch, cosim_functions;
static const char *cosim_cur;
#define COSIM_BEGIN(name) do { cosim_cur = name; cosim_functions++; } while (0)
#define COSIM_END() printf("  ok %s\n", cosim_cur)
#define COSIM_EQ(a, b, what) do { cosim_vectors++; if (!((a) == (b))) { if (cosim_mismatch < 20) printf("MISMATCH %s: %s real=%lld slice=%lld\n", cosim_cur, what, (long long)(a), (long long)(b)); cosim_mismatch++; } } while (0)
#define COSIM_MEMEQ(a, b, n, what) do { cosim_vectors++; if (memcmp((a), (b), (n))) { if (cosim_mismatch < 20) printf("MISMATCH %s: %s (memory)\n", cosim_cur, what); cosim_mismatch++; } } while (0)
#define COSIM_MAIN_BEGIN int main(int argc, char **argv) { rng_s = 0x9E3779B97F4A7C15ull ^ (argc > 1 ? strtoull(argv[1], 0, 0) * 0x100000001B3ull : 1); long iters = argc > 2 ? atol(argv[2]) : 200; if (!rng_s) rng_s = 1;
#define COSIM_MAIN_END printf("COSIM functions=%ld vectors=%ld mismatches=%ld\n", cosim_functions, cosim_vectors, cosim_mismatch); return cosim_mismatch ? 1 : 0; }
#endif
