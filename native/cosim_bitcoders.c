/* Co-simulation driver for unit 'bitcoders'. */
#include "cosim.h"
#include "vec.h"
#include "vec_bits.h"
#include "vec_ans.h"
#include "core_types.h"
#define rans_precision_bits_t 12
#define vp10_fastdiv_tab cosim_unused_tab
#include "ans_types.h"
#include "bitcoders_types.h"
void vec_w32_resize_alloc(struct DirectBitDecoder *self, uint32_t n) { if (n > self->bits_.cap) { self->bits_.size = n; return; } for (uint32_t i = self->bits_.size; i < n; ++i) self->bits_.data[i] = 0; self->bits_.size = n; }
#define BOTH(ret, name, ...) ret name(__VA_ARGS__); ret slice_##name(__VA_ARGS__);
BOTH(void, DirectBitEncoder_EncodeBit, struct DirectBitEncoder *, bool) BOTH(void, DirectBitEncoder_EncodeLeastSignificantBits32, struct DirectBitEncoder *, int, uint32_t)
BOTH(void, DirectBitEncoder_EndEncoding, struct DirectBitEncoder *, struct EncoderBuffer *)
BOTH(bool, DirectBitDecoder_DecodeNextBit, struct DirectBitDecoder *) BOTH(bool, DirectBitDecoder_DecodeLeastSignificantBits32, struct DirectBitDecoder *, int, uint32_t *)
BOTH(bool, DirectBitDecoder_StartDecoding, struct DirectBitDecoder *, struct DecoderBuffer *)
BOTH(void, RAnsBitEncoder_EncodeBit, struct RAnsBitEncoder *, bool) BOTH(void, RAnsBitEncoder_EncodeLeastSignificantBits32, struct RAnsBitEncoder *, int, uint32_t)
BOTH(bool, RAnsBitDecoder_DecodeNextBit, struct RAnsBitDecoder *) BOTH(void, RAnsBitDecoder_DecodeLeastSignificantBits32, struct RAnsBitDecoder *, int, uint32_t *)
BOTH(bool, RAnsBitDecoder_StartDecoding, struct RAnsBitDecoder *, struct DecoderBuffer *)
COSIM_MAIN_BEGIN
  COSIM_BEGIN("DirectBitEncoder ops + EndEncoding -> DirectBitDecoder StartDecoding + ops");
  for (long i = 0; i < iters * 2; ++i) { uint32_t w1[40] = {0}, w2[40] = {0}; struct DirectBitEncoder a = {{w1, 0, 40}, 0, 0}, b = {{w2, 0, 40}, 0, 0}; int ops = 1 + rnd64() % 20; int nb[24]; 
    for (int k = 0; k < ops; ++k) { int n = rnd64() % 33; nb[k] = n; uint32_t v = (uint32_t)rnd_biased(); if (n == 0) { bool bit = v & 1; DirectBitEncoder_EncodeBit(&a, bit); slice_DirectBitEncoder_EncodeBit(&b, bit); } else { DirectBitEncoder_EncodeLeastSignificantBits32(&a, n, v); slice_DirectBitEncoder_EncodeLeastSignificantBits32(&b, n, v); }
      COSIM_EQ(a.local_bits_, b.local_bits_, "enc.local"); COSIM_EQ(a.num_local_bits_, b.num_local_bits_, "enc.n"); COSIM_EQ(a.bits_.size, b.bits_.size, "enc.size"); }
    char s1[200], s2[200]; memset(s1, 0, 200); memset(s2, 0, 200); struct EncoderBuffer e1, e2; memset(&e1, 0, sizeof e1); memset(&e2, 0, sizeof e2); e1.buffer_.data = s1; e1.buffer_.cap = 200; e2.buffer_.data = s2; e2.buffer_.cap = 200;
    DirectBitEncoder_EndEncoding(&a, &e1); slice_DirectBitEncoder_EndEncoding(&b, &e2); COSIM_EQ(e1.buffer_.size, e2.buffer_.size, "stream.size"); COSIM_MEMEQ(s1, s2, 200, "stream");
    if (rnd64() % 4 == 0) { int k = rnd64() % 8; s1[k] ^= (char)rnd64(); s2[k] = s1[k]; }
    int cut = (rnd64() % 4 == 0) ? (int)(rnd64() % (e1.buffer_.size + 1)) : (int)e1.buffer_.size;
    struct DecoderBuffer d1; memset(&d1, 0, sizeof d1); d1.data_ = s1; d1.data_size_ = cut; struct DecoderBuffer d2 = d1; d2.data_ = s2;
    uint32_t x1[40] = {0}, x2[40] = {0}; struct DirectBitDecoder p, q; memset(&p, 0, sizeof p); memset(&q, 0, sizeof q); p.bits_.data = x1; p.bits_.cap = 40; p.pos_ = x1; q.bits_.data = x2; q.bits_.cap = 40; q.pos_ = x2;
    bool r1 = DirectBitDecoder_StartDecoding(&p, &d1), r2 = slice_DirectBitDecoder_StartDecoding(&q, &d2); COSIM_EQ(r1, r2, "start"); COSIM_EQ(d1.pos_, d2.pos_, "start.pos");
    if (!r1 || !r2 || p.bits_.size > 40) continue; COSIM_EQ(p.bits_.size, q.bits_.size, "dec.size");
    for (int k = 0; k < ops + 3; ++k) { int n = k < ops ? nb[k] : (int)(1 + rnd64() % 32); if (n == 0) { COSIM_EQ(DirectBitDecoder_DecodeNextBit(&p), slice_DirectBitDecoder_DecodeNextBit(&q), "dec.bit"); } else { uint32_t v1 = 9, v2 = 9; COSIM_EQ(DirectBitDecoder_DecodeLeastSignificantBits32(&p, n, &v1), slice_DirectBitDecoder_DecodeLeastSignificantBits32(&q, n, &v2), "dec.ret"); COSIM_EQ(v1, v2, "dec.val"); }
      COSIM_EQ(p.num_used_bits_, q.num_used_bits_, "dec.used"); COSIM_EQ(p.pos_ - x1, q.pos_ - x2, "dec.pos"); } }
  COSIM_END();
  COSIM_BEGIN("RAnsBitEncoder EncodeBit/EncodeLeastSignificantBits32; RAnsBitDecoder StartDecoding/DecodeNextBit/DecodeLeastSignificantBits32");
  for (long i = 0; i < iters * 2; ++i) { uint32_t w1[40] = {0}, w2[40] = {0}; uint64_t c1[2] = {0, 0}, c2[2] = {0, 0}; struct RAnsBitEncoder a = {{c1, 2, 2}, {w1, 0, 40}, 0, 0}, b = {{c2, 2, 2}, {w2, 0, 40}, 0, 0};
    for (int k = 0; k < 20; ++k) { int n = rnd64() % 33; uint32_t v = (uint32_t)rnd_biased(); if (n == 0) { RAnsBitEncoder_EncodeBit(&a, v & 1); slice_RAnsBitEncoder_EncodeBit(&b, v & 1); } else { RAnsBitEncoder_EncodeLeastSignificantBits32(&a, n, v); slice_RAnsBitEncoder_EncodeLeastSignificantBits32(&b, n, v); }
      COSIM_EQ(a.local_bits_, b.local_bits_, "renc.local"); COSIM_EQ(a.num_local_bits_, b.num_local_bits_, "renc.n"); COSIM_EQ(a.bits_.size, b.bits_.size, "renc.size"); COSIM_MEMEQ(c1, c2, 16, "renc.counts"); COSIM_MEMEQ(w1, w2, 160, "renc.words"); }
    uint8_t s[48]; for (int k = 0; k < 48; ++k) s[k] = (uint8_t)rnd64(); s[1] = (uint8_t)(rnd64() % 40); uint16_t ver = (rnd64() & 1) ? 0x0201 : 0x0202; int len = rnd64() % 49;
    struct DecoderBuffer d1; memset(&d1, 0, sizeof d1); d1.data_ = (const char *)s; d1.data_size_ = len; d1.bitstream_version_ = ver; struct DecoderBuffer d2 = d1;
    struct RAnsBitDecoder p, q; memset(&p, 0, sizeof p); memset(&q, 0, sizeof q);
    bool r1 = RAnsBitDecoder_StartDecoding(&p, &d1), r2 = slice_RAnsBitDecoder_StartDecoding(&q, &d2); COSIM_EQ(r1, r2, "rstart"); COSIM_EQ(d1.pos_, d2.pos_, "rstart.pos");
    if (!r1 || !r2) continue; COSIM_EQ(p.ans_decoder_.state, q.ans_decoder_.state, "rstart.state"); COSIM_EQ(p.prob_zero_, q.prob_zero_, "rstart.prob");
    for (int k = 0; k < 12; ++k) { if (rnd64() & 1) { COSIM_EQ(RAnsBitDecoder_DecodeNextBit(&p), slice_RAnsBitDecoder_DecodeNextBit(&q), "rbit"); } else { int n = 1 + rnd64() % 32; uint32_t v1, v2; RAnsBitDecoder_DecodeLeastSignificantBits32(&p, n, &v1); slice_RAnsBitDecoder_DecodeLeastSignificantBits32(&q, n, &v2); COSIM_EQ(v1, v2, "rlsb"); }
      COSIM_EQ(p.ans_decoder_.state, q.ans_decoder_.state, "rstate"); COSIM_EQ(p.ans_decoder_.buf_offset, q.ans_decoder_.buf_offset, "roff"); } }
  COSIM_END();
COSIM_MAIN_END
