/* Co-simulation driver for unit 'quant'. */
#include "cosim.h"
#include "vec.h"
#include "core_types.h"
#include "quant_types.h"
#include <math.h>
#define BOTH(ret, name, ...) ret name(__VA_ARGS__); ret slice_##name(__VA_ARGS__);
BOTH(void, Quantizer_Init, struct Quantizer *, float, int32_t) BOTH(int32_t, Quantizer_QuantizeFloat, const struct Quantizer *, float)
BOTH(bool, Dequantizer_Init, struct Dequantizer *, float, int32_t) BOTH(float, Dequantizer_DequantizeFloat, const struct Dequantizer *, int32_t)
BOTH(bool, AQT_IsQuantizationValid, int) BOTH(bool, AQT_ComputeRangeTail, struct AQT *, int, const float *)
static float rndf(void) { uint64_t r = rnd64(); switch (r % 6) { case 0: return (float)(r >> 40) / 1024.0f; case 1: return ldexpf((float)((r >> 8) & 0xffffff), (int)((r >> 40) % 120) - 80); case 2: return 0.0f; case 3: return 1e-6f * (float)((r >> 8) % 1000); default: { uint32_t b = (uint32_t)(r >> 16); float f; memcpy(&f, &b, 4); return (isnan(f) || isinf(f)) ? 1.0f : fabsf(f); } } }
COSIM_MAIN_BEGIN
  COSIM_BEGIN("Quantizer/Dequantizer");
  for (long i = 0; i < iters * 8; ++i) { float range = rndf(); if (!(range > 1e-30f && range < 1e30f)) range = 1.0f; int q = 1 + rnd64() % 30; int32_t maxq = (int32_t)((1u << q) - 1);
    struct Quantizer a, b; Quantizer_Init(&a, range, maxq); slice_Quantizer_Init(&b, range, maxq); COSIM_MEMEQ(&a, &b, sizeof a, "init");
    float v = range * (float)(rnd64() % 1001) / 1000.0f; COSIM_EQ(Quantizer_QuantizeFloat(&a, v), slice_Quantizer_QuantizeFloat(&b, v), "quantize");
    struct Dequantizer c, d; c.delta_ = d.delta_ = 1.f; int32_t mq = (rnd64() % 8 == 0) ? 0 : maxq; COSIM_EQ(Dequantizer_Init(&c, range, mq), slice_Dequantizer_Init(&d, range, mq), "deq.init"); COSIM_MEMEQ(&c, &d, sizeof c, "deq.delta");
    int32_t k = (int32_t)(rnd64() % ((uint64_t)maxq + 1)); float f1 = Dequantizer_DequantizeFloat(&c, k), f2 = slice_Dequantizer_DequantizeFloat(&d, k); COSIM_MEMEQ(&f1, &f2, 4, "dequantize");
    int bits = (int)(rnd64() % 40) - 4; COSIM_EQ(AQT_IsQuantizationValid(bits), slice_AQT_IsQuantizationValid(bits), "valid"); }
  COSIM_END();
  COSIM_BEGIN("AttributeQuantizationTransform range tail (vs whole ComputeParameters on a two-value attribute)");
  for (long i = 0; i < iters; ++i) { int nc = 1 + rnd64() % 4; float mn[4], mx[4]; for (int c = 0; c < 4; ++c) { float a = rndf() - rndf(), b = a + ((rnd64() % 3) ? rndf() * 1e-7f : rndf()); if (rnd64() % 5 == 0) b = a; mn[c] = a; mx[c] = b < a ? a : b; }
    if (rnd64() % 16 == 0) mx[rnd64() % nc] = INFINITY;
    struct AQT t1, t2; t1.quantization_bits_ = t2.quantization_bits_ = 10; t1.min_values_ = mn; t2.min_values_ = mn; t1.range_ = t2.range_ = 0.f;
    bool r1 = AQT_ComputeRangeTail(&t1, nc, mx), r2 = slice_AQT_ComputeRangeTail(&t2, nc, mx); COSIM_EQ(r1, r2, "ret"); if (r1 && r2) COSIM_MEMEQ(&t1.range_, &t2.range_, 4, "range"); }
  COSIM_END();
COSIM_MAIN_END
/* helpers of the parameter-transport slices (defined as static inline in contracts/quant.c for the verifier); the driver does not exercise those slices */
struct EncoderBuffer; bool EncoderBuffer_Encode_u8(struct EncoderBuffer *self, const uint8_t *data);
bool EncoderBuffer_Encode_u8_val(struct EncoderBuffer *b, uint8_t v) { return EncoderBuffer_Encode_u8(b, &v); }
bool AQTP_is_initialized(const struct AQTP *self) { return self->quantization_bits_ != -1; }
void fvec_resize(struct fvec *v, size_t n) { for (size_t i = v->size; i < n; ++i) v->data[i] = 0.0f; v->size = n; }
