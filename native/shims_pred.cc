// Native shims for unit 'pred': each sliced function name calls the REAL draco code.
#include <cstring>
#include <cstdio>
#include <cstdlib>
#include <cstddef>
#include <vector>
#include <algorithm>
#include "draco/compression/attributes/prediction_schemes/prediction_scheme_wrap_encoding_transform.h"
#include "draco/compression/attributes/prediction_schemes/prediction_scheme_wrap_decoding_transform.h"
#include "draco/compression/attributes/prediction_schemes/prediction_scheme_normal_octahedron_canonicalized_encoding_transform.h"
#include "draco/compression/attributes/prediction_schemes/prediction_scheme_normal_octahedron_canonicalized_decoding_transform.h"
#include "draco/compression/attributes/normal_compression_utils.h"
#include "draco/core/math_utils.h"
extern "C" {
#include "vec.h"
#include "vec_i32.h"
#include "core_types.h"
#include "pred_types.h"
}
using namespace draco;
typedef PredictionSchemeWrapEncodingTransform<int32_t> WEnc;
typedef PredictionSchemeWrapDecodingTransform<int32_t> WDec;
typedef PredictionSchemeNormalOctahedronCanonicalizedEncodingTransform<int32_t> CEnc;
typedef PredictionSchemeNormalOctahedronCanonicalizedDecodingTransform<int32_t> CDec;
typedef VectorD<int32_t, 2> RP2;
template <class W> static void wload(W &r, const struct ::Wrap *c) {
  r.num_components_ = c->num_components_; r.min_value_ = c->min_value_; r.max_value_ = c->max_value_; r.max_dif_ = c->max_dif_;
  r.max_correction_ = c->max_correction_; r.min_correction_ = c->min_correction_;
  r.clamped_value_.assign(c->clamped_value_.data, c->clamped_value_.data + c->clamped_value_.size);
}
template <class W> static void wstore(const W &r, struct ::Wrap *c) {
  c->min_value_ = r.min_value_; c->max_value_ = r.max_value_; c->max_dif_ = r.max_dif_; c->max_correction_ = r.max_correction_; c->min_correction_ = r.min_correction_;
  std::copy(r.clamped_value_.begin(), r.clamped_value_.end(), c->clamped_value_.data);
}
static_assert(sizeof(struct ::OTB) == sizeof(OctahedronToolBox), "OctahedronToolBox layout");
static_assert(offsetof(struct ::OTB, center_value_) == offsetof(OctahedronToolBox, center_value_), "center_value_");
static_assert(sizeof(CDec) == sizeof(OctahedronToolBox) && sizeof(CEnc) == sizeof(OctahedronToolBox), "transform objects hold only the tool box");
static inline OctahedronToolBox *TB(const struct ::OTB *o) { return reinterpret_cast<OctahedronToolBox *>(const_cast<struct ::OTB *>(o)); }
static inline CDec *CD(const struct ::OTB *o) { return reinterpret_cast<CDec *>(const_cast<struct ::OTB *>(o)); }
static inline CEnc *CE(const struct ::OTB *o) { return reinterpret_cast<CEnc *>(const_cast<struct ::OTB *>(o)); }
static inline draco::DecoderBuffer *DB(struct ::DecoderBuffer *b) { return reinterpret_cast<draco::DecoderBuffer *>(b); }
static inline RP2 rp(Point2 p) { return RP2(p.v[0], p.v[1]); }
static inline Point2 cp(RP2 p) { Point2 r; r.v[0] = p[0]; r.v[1] = p[1]; return r; }
extern "C" {
int Wrap_num_components(const struct ::Wrap *w) { WDec r; wload(r, w); return r.num_components(); }
int32_t Wrap_min_value(const struct ::Wrap *w) { WDec r; wload(r, w); return r.min_value(); }
int32_t Wrap_max_value(const struct ::Wrap *w) { WDec r; wload(r, w); return r.max_value(); }
int32_t Wrap_max_dif(const struct ::Wrap *w) { WDec r; wload(r, w); return r.max_dif(); }
int32_t Wrap_min_correction(const struct ::Wrap *w) { WDec r; wload(r, w); return r.min_correction(); }
int32_t Wrap_max_correction(const struct ::Wrap *w) { WDec r; wload(r, w); return r.max_correction(); }
void Wrap_set_min_value(struct ::Wrap *w, int32_t v) { WDec r; wload(r, w); r.set_min_value(v); wstore(r, w); }
void Wrap_set_max_value(struct ::Wrap *w, int32_t v) { WDec r; wload(r, w); r.set_max_value(v); wstore(r, w); }
bool Wrap_InitCorrectionBounds(struct ::Wrap *w) { WDec r; wload(r, w); bool ok = r.InitCorrectionBounds(); wstore(r, w); return ok; }
const int32_t *Wrap_ClampPredictedValue(const struct ::Wrap *w, const int32_t *p) { WDec r; wload(r, w); r.ClampPredictedValue(p); wstore(r, const_cast<struct ::Wrap *>(w)); return w->clamped_value_.data; }
void WrapEnc_ComputeCorrection(const struct ::Wrap *w, const int32_t *o, const int32_t *p, int32_t *c) { WEnc r; wload(r, w); r.ComputeCorrection(o, p, c); wstore(r, const_cast<struct ::Wrap *>(w)); }
void WrapDec_ComputeOriginalValue(const struct ::Wrap *w, const int32_t *p, const int32_t *c, int32_t *o) { WDec r; wload(r, w); r.ComputeOriginalValue(p, c, o); wstore(r, const_cast<struct ::Wrap *>(w)); }
bool WrapDec_DecodeTransformData(struct ::Wrap *w, struct ::DecoderBuffer *b) { WDec r; wload(r, w); bool ok = r.DecodeTransformData(DB(b)); wstore(r, w); return ok; }
bool OTB_SetQuantizationBits(struct ::OTB *o, int32_t q) { return TB(o)->SetQuantizationBits(q); }
void OTB_CanonicalizeOctahedralCoords(const struct ::OTB *o, int32_t s, int32_t t, int32_t *os, int32_t *ot) { TB(o)->CanonicalizeOctahedralCoords(s, t, os, ot); }
void OTB_IntegerVectorToQuantizedOctahedralCoords(const struct ::OTB *o, const int32_t *v, int32_t *os, int32_t *ot) { TB(o)->IntegerVectorToQuantizedOctahedralCoords(v, os, ot); }
bool OTB_IsInDiamond(const struct ::OTB *o, int32_t s, int32_t t) { return TB(o)->IsInDiamond(s, t); }
void OTB_InvertDiamond(const struct ::OTB *o, int32_t *s, int32_t *t) { TB(o)->InvertDiamond(s, t); }
int32_t OTB_ModMax(const struct ::OTB *o, int32_t x) { return TB(o)->ModMax(x); }
int32_t OTB_MakePositive(const struct ::OTB *o, int32_t x) { return TB(o)->MakePositive(x); }
int32_t OTB_center_value(const struct ::OTB *o) { return TB(o)->center_value(); }
int32_t OTB_max_quantized_value(const struct ::OTB *o) { return TB(o)->max_quantized_value(); }
int32_t OTB_quantization_bits(const struct ::OTB *o) { return TB(o)->quantization_bits(); }
bool OctT_IsInDiamond(const struct ::OTB *o, int32_t s, int32_t t) { return CD(o)->IsInDiamond(s, t); }
void OctT_InvertDiamond(const struct ::OTB *o, int32_t *s, int32_t *t) { CD(o)->InvertDiamond(s, t); }
int32_t OctT_ModMax(const struct ::OTB *o, int32_t x) { return CD(o)->ModMax(x); }
int32_t OctT_MakePositive(const struct ::OTB *o, int32_t x) { return CD(o)->MakePositive(x); }
int32_t OctT_center_value(const struct ::OTB *o) { return CD(o)->center_value(); }
int32_t OctT_quantization_bits(const struct ::OTB *o) { return CD(o)->quantization_bits(); }
bool OctT_set_max_quantized_value(struct ::OTB *o, int32_t v) { return CD(o)->set_max_quantized_value(v); }
int32_t Canon_GetRotationCount(const struct ::OTB *o, Point2 p) { return CD(o)->GetRotationCount(rp(p)); }
Point2 Canon_RotatePoint(const struct ::OTB *o, Point2 p, int32_t k) { return cp(CD(o)->RotatePoint(rp(p), k)); }
bool Canon_IsInBottomLeft(const struct ::OTB *o, Point2 p) { return CD(o)->IsInBottomLeft(rp(p)); }
Point2 CanonEnc_ComputeCorrectionP(const struct ::OTB *o, Point2 a, Point2 b) { return cp(CE(o)->ComputeCorrection(rp(a), rp(b))); }
void CanonEnc_ComputeCorrection(const struct ::OTB *o, const int32_t *a, const int32_t *b, int32_t *c) { CE(o)->ComputeCorrection(a, b, c); }
Point2 CanonDec_ComputeOriginalValueP(const struct ::OTB *o, Point2 a, Point2 b) { return cp(CD(o)->ComputeOriginalValue(rp(a), rp(b))); }
void CanonDec_ComputeOriginalValue(const struct ::OTB *o, const int32_t *a, const int32_t *b, int32_t *c) { CD(o)->ComputeOriginalValue(a, b, c); }
bool CanonDec_DecodeTransformData(struct ::OTB *o, struct ::DecoderBuffer *b) { return CD(o)->DecodeTransformData(DB(b)); }
int32_t AddAsUnsigned_i32(int32_t a, int32_t b) { return draco::AddAsUnsigned<int32_t>(a, b); }
}
