// Native replay through MetadataEncoder/MetadataDecoder (public classes).
// case "empty": entry with an empty value.  case "longname": sub-metadata holding an entry whose name has 256 bytes.
// Property C11: encode ok => decode ok and equal; otherwise encode must report failure.
// exit 0 = holds, 1 = violated
#include <cstdio>
#include <cstring>
#include <string>
#include "draco/metadata/metadata_encoder.h"
#include "draco/metadata/metadata_decoder.h"
#include "draco/metadata/geometry_metadata.h"
using namespace draco;
static bool same(const Metadata &a, const Metadata &b) {
  if (a.num_entries() != b.num_entries()) return false;
  for (auto &e : a.entries()) { auto it = b.entries().find(e.first); if (it == b.entries().end() || !(it->second.data() == e.second.data())) return false; }
  if (a.sub_metadatas().size() != b.sub_metadatas().size()) return false;
  for (auto &s : a.sub_metadatas()) { auto it = b.sub_metadatas().find(s.first); if (it == b.sub_metadatas().end() || !same(*s.second, *it->second)) return false; }
  return true;
}
static int rt(const Metadata &m, const char *what) {
  EncoderBuffer eb; MetadataEncoder enc;
  if (!enc.EncodeMetadata(&eb, &m)) { printf("%s: encoder reported failure (allowed)\n", what); return 0; }
  DecoderBuffer db; db.Init(eb.data(), eb.size());
  Metadata out; MetadataDecoder dec;
  if (!dec.DecodeMetadata(&db, &out)) { printf("%s: encode ok (%zu bytes) but decode FAILED\n", what, eb.size()); return 1; }
  if (!same(m, out)) { printf("%s: encode ok, decode ok, but metadata DIFFERS\n", what); return 1; }
  if (db.remaining_size() != 0) { printf("%s: decoder left %ld bytes\n", what, (long)db.remaining_size()); return 1; }
  printf("%s: round trip exact\n", what); return 0;
}
int main(int argc, char **argv) {
  int rc = 0;
  const char *which = argc > 1 ? argv[1] : "all";
  if (!strcmp(which, "empty") || !strcmp(which, "all")) {
    Metadata m; m.AddEntryString("k", ""); rc |= rt(m, "empty-string-value");
    Metadata m2; m2.AddEntryBinary("b", std::vector<uint8_t>()); m2.AddEntryInt("i", 7); rc |= rt(m2, "empty-binary-value");
  }
  if (!strcmp(which, "longname") || !strcmp(which, "all")) {
    Metadata m; m.AddEntryInt("a", 1);
    std::unique_ptr<Metadata> sub(new Metadata()); sub->AddEntryInt(std::string(256, 'x'), 5); sub->AddEntryInt("y", 6);
    m.AddSubMetadata("sub", std::move(sub));
    rc |= rt(m, "nested-256-byte-entry-name");
    GeometryMetadata g; std::unique_ptr<AttributeMetadata> am(new AttributeMetadata()); am->set_att_unique_id(3); am->AddEntryInt(std::string(300, 'n'), 1);
    g.AddAttributeMetadata(std::move(am)); g.AddEntryInt("z", 2);
    EncoderBuffer eb; MetadataEncoder enc;
    if (!enc.EncodeGeometryMetadata(&eb, &g)) printf("attribute-metadata-long-name: encoder reported failure (allowed)\n");
    else { DecoderBuffer db; db.Init(eb.data(), eb.size()); GeometryMetadata o; MetadataDecoder dec;
      bool ok = dec.DecodeGeometryMetadata(&db, &o);
      bool eq = ok && o.attribute_metadatas().size() == 1 && same(*g.attribute_metadatas()[0], *o.attribute_metadatas()[0]) && same(g, o);
      if (!eq) { printf("attribute-metadata-long-name: encode ok but decode %s\n", ok ? "DIFFERS" : "FAILED"); rc |= 1; } else printf("attribute-metadata-long-name: exact\n"); }
  }
  if (!strcmp(which, "name256") || !strcmp(which, "all")) {
    for (int len : {255, 256, 257}) { Metadata m; m.AddEntryInt(std::string(len, 'q'), 9); char w[64]; snprintf(w, sizeof w, "top-level-%d-byte-entry-name", len); rc |= rt(m, w); }
  }
  return rc;
}
