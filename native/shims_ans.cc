// Native shims for unit 'ans': sliced names -> REAL draco code (entropy/ans.h, core/divide.*).
#include <cstring>
#include <cstdio>
#include <cstdlib>
#include <cstddef>
#include <vector>
#include "draco/compression/entropy/ans.h"
#ifndef RANS_P
#define RANS_P 12
#endif
namespace real = draco;
extern "C" {
#include "vec.h"
#include "vec_ans.h"
#include "core_types.h"
#define rans_precision_bits_t RANS_P
#define AnsCoder c_AnsCoder
#define AnsDecoder c_AnsDecoder
#define rans_sym c_rans_sym
#define rans_dec_sym c_rans_dec_sym
#define RAnsEncoder c_RAnsEncoder
#define RAnsDecoder c_RAnsDecoder
#define fastdiv_elem c_fastdiv_elem
#define vp10_fastdiv_tab c_vp10_fastdiv_tab
#include "ans_types.h"
#undef AnsCoder
#undef AnsDecoder
#undef rans_sym
#undef rans_dec_sym
#undef RAnsEncoder
#undef RAnsDecoder
#undef fastdiv_elem
#undef vp10_fastdiv_tab
}
static_assert(sizeof(c_AnsCoder) == sizeof(real::AnsCoder) && sizeof(c_AnsDecoder) == sizeof(real::AnsDecoder), "Ans structs layout");
static_assert(offsetof(c_AnsCoder, state) == offsetof(real::AnsCoder, state) && offsetof(c_AnsDecoder, buf_offset) == offsetof(real::AnsDecoder, buf_offset), "Ans fields");
static_assert(sizeof(c_rans_sym) == sizeof(real::rans_sym), "rans_sym layout");
static inline real::AnsCoder *AC(c_AnsCoder *a) { return reinterpret_cast<real::AnsCoder *>(a); }
static inline real::AnsDecoder *AD(c_AnsDecoder *a) { return reinterpret_cast<real::AnsDecoder *>(a); }
typedef real::RAnsEncoder<RANS_P> REnc;
typedef real::RAnsDecoder<RANS_P> RDec;
static void dload(RDec &r, const c_RAnsDecoder *c) {
  r.lut_table_.assign(c->lut_table_.data, c->lut_table_.data + c->lut_table_.size);
  r.probability_table_.resize(c->probability_table_.size);
  if (c->probability_table_.size) memcpy(r.probability_table_.data(), c->probability_table_.data, c->probability_table_.size * sizeof(real::rans_sym));
  memcpy(&r.ans_, &c->ans_, sizeof r.ans_);
}
static void dstore(const RDec &r, c_RAnsDecoder *c) {
  if (r.lut_table_.size() > c->lut_table_.cap || r.probability_table_.size() > c->probability_table_.cap) { fprintf(stderr, "shim: vector model capacity\n"); abort(); }
  c->lut_table_.size = r.lut_table_.size(); if (c->lut_table_.size) memcpy(c->lut_table_.data, r.lut_table_.data(), c->lut_table_.size * 4);
  c->probability_table_.size = r.probability_table_.size(); if (c->probability_table_.size) memcpy(c->probability_table_.data, r.probability_table_.data(), c->probability_table_.size * sizeof(real::rans_sym));
  memcpy(&c->ans_, &r.ans_, sizeof r.ans_);
}
extern "C" {
unsigned fastdiv(unsigned x, int y) { return real::fastdiv(x, y); }
uint32_t mem_get_le16(const void *p) { return real::mem_get_le16(p); }
uint32_t mem_get_le24(const void *p) { return real::mem_get_le24(p); }
uint32_t mem_get_le32(const void *p) { return real::mem_get_le32(p); }
void mem_put_le16(void *p, uint32_t v) { real::mem_put_le16(p, v); }
void mem_put_le24(void *p, uint32_t v) { real::mem_put_le24(p, v); }
void mem_put_le32(void *p, uint32_t v) { real::mem_put_le32(p, v); }
void ans_write_init(c_AnsCoder *a, uint8_t *b) { real::ans_write_init(AC(a), b); }
int ans_write_end(c_AnsCoder *a) { return real::ans_write_end(AC(a)); }
void rabs_desc_write(c_AnsCoder *a, int v, uint8_t p0) { real::rabs_desc_write(AC(a), v, p0); }
int rabs_desc_read(c_AnsDecoder *a, uint8_t p0) { return real::rabs_desc_read(AD(a), p0); }
int ans_read_init(c_AnsDecoder *a, const uint8_t *b, int o) { return real::ans_read_init(AD(a), b, o); }
int ans_read_end(c_AnsDecoder *a) { return real::ans_read_end(AD(a)); }
int ans_reader_has_error(const c_AnsDecoder *a) { return real::ans_reader_has_error(AD(const_cast<c_AnsDecoder *>(a))); }
void RAnsEncoder_write_init(c_RAnsEncoder *e, uint8_t *b) { REnc r; memcpy(&r.ans_, &e->ans_, sizeof r.ans_); r.write_init(b); memcpy(&e->ans_, &r.ans_, sizeof r.ans_); }
int RAnsEncoder_write_end(c_RAnsEncoder *e) { REnc r; memcpy(&r.ans_, &e->ans_, sizeof r.ans_); int x = r.write_end(); memcpy(&e->ans_, &r.ans_, sizeof r.ans_); return x; }
void RAnsEncoder_rans_write(c_RAnsEncoder *e, const c_rans_sym *s) { REnc r; memcpy(&r.ans_, &e->ans_, sizeof r.ans_); r.rans_write(reinterpret_cast<const real::rans_sym *>(s)); memcpy(&e->ans_, &r.ans_, sizeof r.ans_); }
int RAnsDecoder_read_init(c_RAnsDecoder *d, const uint8_t *b, int o) { RDec r; dload(r, d); int x = r.read_init(b, o); dstore(r, d); return x; }
int RAnsDecoder_read_end(c_RAnsDecoder *d) { RDec r; dload(r, d); return r.read_end(); }
int RAnsDecoder_reader_has_error(c_RAnsDecoder *d) { RDec r; dload(r, d); return r.reader_has_error(); }
int RAnsDecoder_rans_read(c_RAnsDecoder *d) { RDec r; dload(r, d); int x = r.rans_read(); dstore(r, d); return x; }
void RAnsDecoder_fetch_sym(c_RAnsDecoder *d, c_rans_dec_sym *o, uint32_t rem) { RDec r; dload(r, d); r.fetch_sym(reinterpret_cast<real::rans_dec_sym *>(o), rem); }
bool RAnsDecoder_rans_build_look_up_table(c_RAnsDecoder *d, const uint32_t *t, uint32_t n) { RDec r; dload(r, d); bool x = r.rans_build_look_up_table(t, n); dstore(r, d); return x; }
}
