/* Co-simulation driver for unit 'symbols' (RAnsSymbolDecoder<5>, precision 12). */
#include "cosim.h"
#include "vec.h"
#include "vec_ans.h"
#include "core_types.h"
#define rans_precision_bits_t 12
#define vp10_fastdiv_tab cosim_unused_tab
#include "ans_types.h"
#include "symbols_types.h"
static uint32_t pstore[70000];
void vec_prob_resize(struct RSD *self, uint32_t n) { if (n > 70000) { self->probability_table_.size = n; self->probability_table_.data = 0; return; } self->probability_table_.data = pstore; for (uint32_t i = 0; i < n; ++i) pstore[i] = 0; self->probability_table_.size = n; self->probability_table_.cap = 70000; }
bool DecodeRawSymbolsInternal_b(int b, uint32_t n, struct DecoderBuffer *s, uint32_t *o) { return false; }
bool DecodeTaggedSymbols_stub(uint32_t n, int c, struct DecoderBuffer *s, uint32_t *o) { return false; }
int ghost_dispatched_bits;
#define BOTH(ret, name, ...) ret name(__VA_ARGS__); ret slice_##name(__VA_ARGS__);
BOTH(int, ComputeRAnsPrecisionFromUniqueSymbolsBitLength, int) BOTH(int, ComputeRAnsUnclampedPrecision, int)
BOTH(bool, RSD_Create, struct RSD *, struct DecoderBuffer *) BOTH(bool, RSD_StartDecoding, struct RSD *, struct DecoderBuffer *)
static uint32_t lut1[4096], lut2[4096], p1[70000]; static struct rans_sym s1[70000], s2[70000];
COSIM_MAIN_BEGIN
  COSIM_BEGIN("ComputeRAnsPrecisionFromUniqueSymbolsBitLength");
  for (int b = 0; b <= 40; ++b) { COSIM_EQ(ComputeRAnsPrecisionFromUniqueSymbolsBitLength(b), slice_ComputeRAnsPrecisionFromUniqueSymbolsBitLength(b), "prec"); COSIM_EQ(ComputeRAnsUnclampedPrecision(b), slice_ComputeRAnsUnclampedPrecision(b), "unclamped"); }
  COSIM_END();
  COSIM_BEGIN("RAnsSymbolDecoder<5>::Create / StartDecoding on random and near-valid tables");
  for (long i = 0; i < iters * 4; ++i) { uint8_t buf[96]; int n = rnd64() % 97; for (int k = 0; k < 96; ++k) buf[k] = (uint8_t)rnd64();
    if (rnd64() % 2) { /* near-valid: few symbols whose probabilities sum to 4096 */ int ns = 1 + rnd64() % 6; buf[0] = (uint8_t)ns; int left = 4096, pos = 1; for (int k = 0; k < ns; ++k) { int p = (k == ns - 1) ? left : (int)(rnd64() % (left + 1)); left -= p; if (p < 64) buf[pos++] = (uint8_t)(p << 2); else { buf[pos++] = (uint8_t)(((p & 63) << 2) | 1); buf[pos++] = (uint8_t)(p >> 6); } } if (rnd64() % 4 == 0) buf[1 + rnd64() % 4] = (uint8_t)((rnd64() % 64) << 2 | 3); }
    uint16_t ver = (rnd64() % 8 == 0) ? 0 : (rnd64() & 1) ? 0x0105 : 0x0202;
    struct DecoderBuffer d1; memset(&d1, 0, sizeof d1); d1.data_ = (const char *)buf; d1.data_size_ = n; d1.bitstream_version_ = ver; struct DecoderBuffer d2 = d1;
    struct RAnsDecoder a1, a2; memset(&a1, 0, sizeof a1); memset(&a2, 0, sizeof a2); a1.lut_table_.data = lut1; a1.lut_table_.cap = 4096; a1.probability_table_.data = s1; a1.probability_table_.cap = 70000; a2.lut_table_.data = lut2; a2.lut_table_.cap = 4096; a2.probability_table_.data = s2; a2.probability_table_.cap = 70000;
    struct RSD r1, r2; memset(&r1, 0, sizeof r1); memset(&r2, 0, sizeof r2); r1.ans_ = &a1; r2.ans_ = &a2; r1.probability_table_.data = p1; r1.probability_table_.cap = 70000; r1.remaining_at_entry = r2.remaining_at_entry = n;
    bool k1 = RSD_Create(&r1, &d1), k2 = slice_RSD_Create(&r2, &d2); COSIM_EQ(k1, k2, "create.ret"); COSIM_EQ(d1.pos_, d2.pos_, "create.pos");
    if (k1 && k2) { COSIM_EQ(r1.num_symbols_, r2.num_symbols_, "nsym"); if (r1.num_symbols_ && r1.num_symbols_ <= 70000) { COSIM_MEMEQ(p1, pstore, r1.num_symbols_ * 4, "prob table"); COSIM_MEMEQ(lut1, lut2, 4096 * 4, "lut"); }
      bool t1 = RSD_StartDecoding(&r1, &d1), t2 = slice_RSD_StartDecoding(&r2, &d2); COSIM_EQ(t1, t2, "start.ret"); COSIM_EQ(d1.pos_, d2.pos_, "start.pos"); if (t1 && t2) { COSIM_EQ(a1.ans_.state, a2.ans_.state, "start.state"); COSIM_EQ(a1.ans_.buf_offset, a2.ans_.buf_offset, "start.off"); } } }
  COSIM_END();
COSIM_MAIN_END
/* ghost symbol decoder of the two symbol loops: only referenced by slices that this driver does not exercise */
void GSD_ctor(struct GSD *d) { memset(d, 0, sizeof *d); } bool GSD_Create(struct GSD *d, struct DecoderBuffer *b) { return false; } uint32_t GSD_num_symbols(const struct GSD *d) { return 0; }
bool GSD_StartDecoding(struct GSD *d, struct DecoderBuffer *b) { return false; } uint32_t GSD_DecodeSymbol(struct GSD *d) { return 0; } void GSD_EndDecoding(struct GSD *d) {}
void GBITS_Start(struct DecoderBuffer *b) {} bool GBITS_Decode(struct DecoderBuffer *b, uint32_t nbits, uint32_t *v) { return false; } void GBITS_End(struct DecoderBuffer *b) {}
struct EncoderBuffer; bool EncoderBuffer_Encode_u8(struct EncoderBuffer *self, const uint8_t *data);
bool EncoderBuffer_Encode_u8_val(struct EncoderBuffer *b, uint8_t v) { return EncoderBuffer_Encode_u8(b, &v); }
