// Native shims for unit 'quant': sliced names -> REAL draco code.
#include <cstring>
#include <cmath>
#include <vector>
#include "draco/core/quantization_utils.h"
#include "draco/attributes/attribute_quantization_transform.h"
extern "C" {
#include "vec.h"
#include "core_types.h"
#define Quantizer c_Quantizer
#define Dequantizer c_Dequantizer
#include "quant_types.h"
#undef Quantizer
#undef Dequantizer
}
static_assert(sizeof(c_Quantizer) == sizeof(draco::Quantizer) && sizeof(c_Dequantizer) == sizeof(draco::Dequantizer), "quantizer layout");
extern "C" {
void Quantizer_Init(c_Quantizer *q, float range, int32_t m) { reinterpret_cast<draco::Quantizer *>(q)->Init(range, m); }
int32_t Quantizer_QuantizeFloat(const c_Quantizer *q, float v) { return reinterpret_cast<const draco::Quantizer *>(q)->QuantizeFloat(v); }
bool Dequantizer_Init(c_Dequantizer *q, float range, int32_t m) { return reinterpret_cast<draco::Dequantizer *>(q)->Init(range, m); }
float Dequantizer_DequantizeFloat(const c_Dequantizer *q, int32_t v) { return reinterpret_cast<const draco::Dequantizer *>(q)->DequantizeFloat(v); }
bool AQT_IsQuantizationValid(int b) { return draco::AttributeQuantizationTransform::IsQuantizationValid(b); }
// ComputeParameters' tail is not callable on its own in the real code: the reference is the whole ComputeParameters on an attribute
// holding exactly two values (component-wise min and max), which reaches the tail with these bounds.
bool AQT_ComputeRangeTail(struct AQT *t, int nc, const float *mx) {
  draco::PointAttribute att; draco::GeometryAttribute ga; ga.Init(draco::GeometryAttribute::GENERIC, nullptr, nc, draco::DT_FLOAT32, false, sizeof(float) * nc, 0);
  att.Init(draco::GeometryAttribute::GENERIC, nc, draco::DT_FLOAT32, false, 2);
  att.SetAttributeValue(draco::AttributeValueIndex(0), t->min_values_); att.SetAttributeValue(draco::AttributeValueIndex(1), mx);
  draco::AttributeQuantizationTransform tr; bool ok = tr.ComputeParameters(att, 10);
  if (ok) { t->range_ = tr.range(); }
  return ok;
}
}
