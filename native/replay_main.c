/* entry of a native replay binary: the harness text of contracts/<unit>.c run against the real code */
int replay_argc; char **replay_argv; int replay_failed;
void HARNESS(void);
int main(int argc, char **argv) { replay_argc = argc; replay_argv = argv; HARNESS(); return replay_failed ? 1 : 0; }
