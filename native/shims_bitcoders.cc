// Native shims for unit 'bitcoders': sliced names -> REAL draco bit coders (state copied in and out of the C mirror structs).
#include <cstring>
#include <cstdio>
#include <cstdlib>
#include <vector>
#include "draco/compression/bit_coders/direct_bit_encoder.h"
#include "draco/compression/bit_coders/direct_bit_decoder.h"
#include "draco/compression/bit_coders/rans_bit_encoder.h"
#include "draco/compression/bit_coders/rans_bit_decoder.h"
extern "C" {
#include "vec.h"
#include "vec_bits.h"
#include "vec_ans.h"
#include "core_types.h"
#define rans_precision_bits_t 12
#define AnsCoder c_AnsCoder
#define AnsDecoder c_AnsDecoder
#define rans_sym c_rans_sym
#define rans_dec_sym c_rans_dec_sym
#define RAnsEncoder c_RAnsEncoder
#define RAnsDecoder c_RAnsDecoder
#define fastdiv_elem c_fastdiv_elem
#define vp10_fastdiv_tab c_vp10_fastdiv_tab_bc
#include "ans_types.h"
#define DirectBitEncoder c_DirectBitEncoder
#define DirectBitDecoder c_DirectBitDecoder
#define RAnsBitEncoder c_RAnsBitEncoder
#define RAnsBitDecoder c_RAnsBitDecoder
#include "bitcoders_types.h"
#undef DirectBitEncoder
#undef DirectBitDecoder
#undef RAnsBitEncoder
#undef RAnsBitDecoder
#undef AnsCoder
#undef AnsDecoder
#undef rans_sym
#undef rans_dec_sym
#undef RAnsEncoder
#undef RAnsDecoder
}
using namespace draco;
static inline draco::DecoderBuffer *DB(struct ::DecoderBuffer *b) { return reinterpret_cast<draco::DecoderBuffer *>(b); }
struct EBr { draco::EncoderBuffer real; explicit EBr(struct ::EncoderBuffer *c) { real.buffer()->assign(c->buffer_.data, c->buffer_.data + c->buffer_.size); }
  void back(struct ::EncoderBuffer *c) { if (real.size() > c->buffer_.cap) abort(); memcpy(c->buffer_.data, real.data(), real.size()); c->buffer_.size = real.size(); } };
template <class E, class C> static void eload(E &r, const C *c) { r.bits_.assign(c->bits_.data, c->bits_.data + c->bits_.size); r.local_bits_ = c->local_bits_; r.num_local_bits_ = c->num_local_bits_; }
template <class E, class C> static void estore(const E &r, C *c) { if (r.bits_.size() > c->bits_.cap) abort(); memcpy(c->bits_.data, r.bits_.data(), r.bits_.size() * 4); c->bits_.size = r.bits_.size(); c->local_bits_ = r.local_bits_; c->num_local_bits_ = r.num_local_bits_; }
static void dload(draco::DirectBitDecoder &r, const c_DirectBitDecoder *c) { r.bits_.assign(c->bits_.data, c->bits_.data + c->bits_.size); r.pos_ = r.bits_.begin() + (c->pos_ - c->bits_.data); r.num_used_bits_ = c->num_used_bits_; }
static void dstore(const draco::DirectBitDecoder &r, c_DirectBitDecoder *c) { if (r.bits_.size() > c->bits_.cap) abort(); memcpy(c->bits_.data, r.bits_.data(), r.bits_.size() * 4); c->bits_.size = r.bits_.size(); c->pos_ = c->bits_.data + (r.pos_ - r.bits_.begin()); c->num_used_bits_ = r.num_used_bits_; }
extern "C" {
void DirectBitEncoder_EncodeBit(c_DirectBitEncoder *e, bool b) { draco::DirectBitEncoder r; eload(r, e); r.EncodeBit(b); estore(r, e); }
void DirectBitEncoder_EncodeLeastSignificantBits32(c_DirectBitEncoder *e, int n, uint32_t v) { draco::DirectBitEncoder r; eload(r, e); r.EncodeLeastSignificantBits32(n, v); estore(r, e); }
void DirectBitEncoder_Clear(c_DirectBitEncoder *e) { draco::DirectBitEncoder r; eload(r, e); r.Clear(); estore(r, e); }
void DirectBitEncoder_EndEncoding(c_DirectBitEncoder *e, struct ::EncoderBuffer *b) { draco::DirectBitEncoder r; eload(r, e); EBr br(b); r.EndEncoding(&br.real); br.back(b); estore(r, e); }
bool DirectBitDecoder_DecodeNextBit(c_DirectBitDecoder *d) { draco::DirectBitDecoder r; dload(r, d); bool x = r.DecodeNextBit(); dstore(r, d); return x; }
bool DirectBitDecoder_DecodeLeastSignificantBits32(c_DirectBitDecoder *d, int n, uint32_t *v) { draco::DirectBitDecoder r; dload(r, d); bool x = r.DecodeLeastSignificantBits32(n, v); dstore(r, d); return x; }
void DirectBitDecoder_Clear(c_DirectBitDecoder *d) { draco::DirectBitDecoder r; dload(r, d); r.Clear(); dstore(r, d); }
bool DirectBitDecoder_StartDecoding(c_DirectBitDecoder *d, struct ::DecoderBuffer *b) { draco::DirectBitDecoder r; dload(r, d); bool x = r.StartDecoding(DB(b)); if (r.bits_.size() <= d->bits_.cap) dstore(r, d); else { d->bits_.size = r.bits_.size(); } return x; }
static void rload(draco::RAnsBitEncoder &r, const c_RAnsBitEncoder *c) { eload(r, c); r.bit_counts_.assign(c->bit_counts_.data, c->bit_counts_.data + c->bit_counts_.size); }
static void rstore(const draco::RAnsBitEncoder &r, c_RAnsBitEncoder *c) { estore(r, c); memcpy(c->bit_counts_.data, r.bit_counts_.data(), r.bit_counts_.size() * 8); c->bit_counts_.size = r.bit_counts_.size(); }
void RAnsBitEncoder_EncodeBit(c_RAnsBitEncoder *e, bool b) { draco::RAnsBitEncoder r; rload(r, e); r.EncodeBit(b); rstore(r, e); }
void RAnsBitEncoder_EncodeLeastSignificantBits32(c_RAnsBitEncoder *e, int n, uint32_t v) { draco::RAnsBitEncoder r; rload(r, e); r.EncodeLeastSignificantBits32(n, v); rstore(r, e); }
static void bload(draco::RAnsBitDecoder &r, const c_RAnsBitDecoder *c) { memcpy(&r.ans_decoder_, &c->ans_decoder_, sizeof r.ans_decoder_); r.prob_zero_ = c->prob_zero_; }
static void bstore(const draco::RAnsBitDecoder &r, c_RAnsBitDecoder *c) { memcpy(&c->ans_decoder_, &r.ans_decoder_, sizeof r.ans_decoder_); c->prob_zero_ = r.prob_zero_; }
bool RAnsBitDecoder_DecodeNextBit(c_RAnsBitDecoder *d) { draco::RAnsBitDecoder r; bload(r, d); bool x = r.DecodeNextBit(); bstore(r, d); return x; }
void RAnsBitDecoder_DecodeLeastSignificantBits32(c_RAnsBitDecoder *d, int n, uint32_t *v) { draco::RAnsBitDecoder r; bload(r, d); r.DecodeLeastSignificantBits32(n, v); bstore(r, d); }
void RAnsBitDecoder_Clear(c_RAnsBitDecoder *d) { draco::RAnsBitDecoder r; bload(r, d); r.Clear(); bstore(r, d); }
bool RAnsBitDecoder_StartDecoding(c_RAnsBitDecoder *d, struct ::DecoderBuffer *b) { draco::RAnsBitDecoder r; bload(r, d); bool x = r.StartDecoding(DB(b)); bstore(r, d); return x; }
}
