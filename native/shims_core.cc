// Native shims for unit 'core': every sliced function name is defined here as a call into the REAL draco code
// (compiled by g++ from the working tree). Used by co-simulation (reference side) and by counterexample replay.
#include <cstring>
#include <cstdio>
#include <cstdlib>
#include <cstddef>
#include <vector>
#include "draco/core/bit_utils.h"
#include "draco/core/decoder_buffer.h"
#include "draco/core/encoder_buffer.h"
#include "draco/core/varint_decoding.h"
#include "draco/core/varint_encoding.h"
extern "C" {
#include "vec.h"
#include "core_types.h"
}
using namespace draco;
// The C mirror of DecoderBuffer is generated from the member declarations of the real class; check layout identity.
static_assert(sizeof(struct ::DecoderBuffer) == sizeof(draco::DecoderBuffer), "DecoderBuffer layout");
static_assert(offsetof(struct ::DecoderBuffer, pos_) == offsetof(draco::DecoderBuffer, pos_), "pos_");
static_assert(offsetof(struct ::DecoderBuffer, data_size_) == offsetof(draco::DecoderBuffer, data_size_), "data_size_");
static_assert(offsetof(struct ::DecoderBuffer, bit_decoder_) == offsetof(draco::DecoderBuffer, bit_decoder_), "bit_decoder_");
static_assert(offsetof(struct ::DecoderBuffer, bit_mode_) == offsetof(draco::DecoderBuffer, bit_mode_), "bit_mode_");
static_assert(offsetof(struct ::DecoderBuffer, bitstream_version_) == offsetof(draco::DecoderBuffer, bitstream_version_), "version");
static inline draco::DecoderBuffer *DB(struct ::DecoderBuffer *b) { return reinterpret_cast<draco::DecoderBuffer *>(b); }
typedef draco::DecoderBuffer::BitDecoder RealBitDecoder;
static_assert(sizeof(struct ::BitDecoder) == sizeof(RealBitDecoder), "BitDecoder layout");
static inline RealBitDecoder *BD(struct ::BitDecoder *b) { return reinterpret_cast<RealBitDecoder *>(b); }

// EncoderBuffer: the C model holds the bytes in a fixed-capacity vector model; copy in, run the real code, copy out.
// Only byte mode is bridged this way (bit mode goes through the session functions below).
struct EBridge {
  draco::EncoderBuffer real;
  explicit EBridge(struct ::EncoderBuffer *c) {
    real.buffer()->assign(c->buffer_.data, c->buffer_.data + c->buffer_.size);
    real.bit_encoder_reserved_bytes_ = c->bit_encoder_reserved_bytes_;
    real.encode_bit_sequence_size_ = c->encode_bit_sequence_size_;
  }
  void back(struct ::EncoderBuffer *c) {
    size_t n = real.size();
    if (n > c->buffer_.cap) { fprintf(stderr, "shim: vector model capacity exceeded\n"); abort(); }
    memcpy(c->buffer_.data, real.data(), n);
    c->buffer_.size = n;
    c->bit_encoder_reserved_bytes_ = real.bit_encoder_reserved_bytes_;
    c->encode_bit_sequence_size_ = real.encode_bit_sequence_size_;
  }
};

extern "C" {
#define ZZ(W, ST, UT) \
  UT S2U_i##W(ST v) { return ConvertSignedIntToSymbol<ST>(v); } \
  ST U2S_u##W(UT v) { return ConvertSymbolToSignedInt<UT>(v); }
ZZ(8, int8_t, uint8_t) ZZ(16, int16_t, uint16_t) ZZ(32, int32_t, uint32_t) ZZ(64, int64_t, uint64_t)
int MostSignificantBit(uint32_t n) { return draco::MostSignificantBit(n); }
int CountOneBits32(uint32_t n) { return draco::CountOneBits32(n); }
uint32_t ReverseBits32(uint32_t n) { return draco::ReverseBits32(n); }
void CopyBits32(uint32_t *d, int a, uint32_t s, int b, int k) { draco::CopyBits32(d, a, s, b, k); }
void ConvertSignedIntsToSymbols(const int32_t *in, int n, uint32_t *out) { draco::ConvertSignedIntsToSymbols(in, n, out); }
void ConvertSymbolsToSignedInts(const uint32_t *in, int n, int32_t *out) { draco::ConvertSymbolsToSignedInts(in, n, out); }

#define DBS(SFX, T) \
  bool DecoderBuffer_Peek_##SFX(struct ::DecoderBuffer *b, T *o) { return DB(b)->Peek(o); } \
  bool DecoderBuffer_Decode_##SFX(struct ::DecoderBuffer *b, T *o) { return DB(b)->Decode(o); } \
  bool EncoderBuffer_Encode_##SFX(struct ::EncoderBuffer *e, const T *d) { EBridge br(e); bool r = br.real.Encode(*d); br.back(e); return r; }
DBS(u8, uint8_t) DBS(u16, uint16_t) DBS(u32, uint32_t) DBS(u64, uint64_t) DBS(i8, int8_t) DBS(i16, int16_t) DBS(i32, int32_t) DBS(i64, int64_t) DBS(f32, float)
bool DecoderBuffer_DecodeBytes(struct ::DecoderBuffer *b, void *o, size_t n) { return DB(b)->Decode(o, n); }
bool DecoderBuffer_PeekBytes(struct ::DecoderBuffer *b, void *o, size_t n) { return DB(b)->Peek(o, n); }
void DecoderBuffer_Advance(struct ::DecoderBuffer *b, int64_t n) { DB(b)->Advance(n); }
const char *DecoderBuffer_data_head(const struct ::DecoderBuffer *b) { return DB(const_cast<struct ::DecoderBuffer *>(b))->data_head(); }
int64_t DecoderBuffer_remaining_size(const struct ::DecoderBuffer *b) { return DB(const_cast<struct ::DecoderBuffer *>(b))->remaining_size(); }
bool DecoderBuffer_bit_decoder_active(const struct ::DecoderBuffer *b) { return DB(const_cast<struct ::DecoderBuffer *>(b))->bit_decoder_active(); }
void DecoderBuffer_Init3(struct ::DecoderBuffer *b, const char *d, size_t n, uint16_t v) { DB(b)->Init(d, n, v); }
bool DecoderBuffer_DecodeLeastSignificantBits32(struct ::DecoderBuffer *b, uint32_t n, uint32_t *o) { return DB(b)->DecodeLeastSignificantBits32(n, o); }
bool DecoderBuffer_StartBitDecoding(struct ::DecoderBuffer *b, bool ds, uint64_t *o) { return DB(b)->StartBitDecoding(ds, o); }
void DecoderBuffer_EndBitDecoding(struct ::DecoderBuffer *b) { DB(b)->EndBitDecoding(); }
void BitDecoder_reset(struct ::BitDecoder *d, const void *b, size_t s) { BD(d)->reset(b, s); }
uint64_t BitDecoder_BitsDecoded(const struct ::BitDecoder *d) { return BD(const_cast<struct ::BitDecoder *>(d))->BitsDecoded(); }
uint64_t BitDecoder_AvailBits(const struct ::BitDecoder *d) { return BD(const_cast<struct ::BitDecoder *>(d))->AvailBits(); }
uint32_t BitDecoder_EnsureBits(struct ::BitDecoder *d, int k) { return BD(d)->EnsureBits(k); }
void BitDecoder_ConsumeBits(struct ::BitDecoder *d, int k) { BD(d)->ConsumeBits(k); }
bool BitDecoder_GetBits(struct ::BitDecoder *d, uint32_t n, uint32_t *x) { return BD(d)->GetBits(n, x); }
int BitDecoder_GetBit(struct ::BitDecoder *d) { return BD(d)->GetBit(); }
int BitDecoder_PeekBit(struct ::BitDecoder *d, int o) { return BD(d)->PeekBit(o); }

#define VI(SFX, T) \
  bool DecodeVarint_##SFX(T *o, struct ::DecoderBuffer *b) { return draco::DecodeVarint<T>(o, DB(b)); } \
  bool EncodeVarint_##SFX(T v, struct ::EncoderBuffer *e) { EBridge br(e); bool r = draco::EncodeVarint<T>(v, &br.real); br.back(e); return r; }
VI(u8, uint8_t) VI(u16, uint16_t) VI(u32, uint32_t) VI(u64, uint64_t) VI(i8, int8_t) VI(i16, int16_t) VI(i32, int32_t) VI(i64, int64_t)
#define VU(W, T) bool DecodeVarintUnsigned_u##W(int depth, T *o, struct ::DecoderBuffer *b) { return draco::DecodeVarintUnsigned<T>(depth, o, DB(b)); }
VU(8, uint8_t) VU(16, uint16_t) VU(32, uint32_t) VU(64, uint64_t)
bool EncoderBuffer_EncodeBytes(struct ::EncoderBuffer *e, const void *d, size_t n) { EBridge br(e); bool r = br.real.Encode(d, n); br.back(e); return r; }
bool EncoderBuffer_bit_encoder_active(const struct ::EncoderBuffer *e) { EBridge br(const_cast<struct ::EncoderBuffer *>(e)); return br.real.bit_encoder_active(); }
}
