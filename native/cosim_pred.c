/* Co-simulation driver for unit 'pred'. */
#include "cosim.h"
#include "vec.h"
#include "vec_i32.h"
#include "core_types.h"
#include "pred_types.h"
#define BOTH(ret, name, ...) ret name(__VA_ARGS__); ret slice_##name(__VA_ARGS__);
BOTH(bool, Wrap_InitCorrectionBounds, struct Wrap *)
BOTH(const int32_t *, Wrap_ClampPredictedValue, const struct Wrap *, const int32_t *)
BOTH(void, WrapEnc_ComputeCorrection, const struct Wrap *, const int32_t *, const int32_t *, int32_t *)
BOTH(void, WrapDec_ComputeOriginalValue, const struct Wrap *, const int32_t *, const int32_t *, int32_t *)
BOTH(bool, WrapDec_DecodeTransformData, struct Wrap *, struct DecoderBuffer *)
BOTH(bool, OTB_SetQuantizationBits, struct OTB *, int32_t)
BOTH(void, OTB_CanonicalizeOctahedralCoords, const struct OTB *, int32_t, int32_t, int32_t *, int32_t *)
BOTH(void, OTB_IntegerVectorToQuantizedOctahedralCoords, const struct OTB *, const int32_t *, int32_t *, int32_t *)
BOTH(bool, OTB_IsInDiamond, const struct OTB *, int32_t, int32_t)
BOTH(void, OTB_InvertDiamond, const struct OTB *, int32_t *, int32_t *)
BOTH(int32_t, OTB_ModMax, const struct OTB *, int32_t)
BOTH(int32_t, OTB_MakePositive, const struct OTB *, int32_t)
BOTH(bool, OctT_set_max_quantized_value, struct OTB *, int32_t)
BOTH(int32_t, Canon_GetRotationCount, const struct OTB *, Point2)
BOTH(Point2, Canon_RotatePoint, const struct OTB *, Point2, int32_t)
BOTH(bool, Canon_IsInBottomLeft, const struct OTB *, Point2)
BOTH(void, CanonEnc_ComputeCorrection, const struct OTB *, const int32_t *, const int32_t *, int32_t *)
BOTH(void, CanonDec_ComputeOriginalValue, const struct OTB *, const int32_t *, const int32_t *, int32_t *)
BOTH(bool, CanonDec_DecodeTransformData, struct OTB *, struct DecoderBuffer *)
BOTH(int32_t, AddAsUnsigned_i32, int32_t, int32_t)
static uint8_t buf[32];
static int32_t rnd_i32(void) { return (int32_t)rnd_biased(); }
COSIM_MAIN_BEGIN
  COSIM_BEGIN("Wrap: InitCorrectionBounds/ClampPredictedValue/ComputeCorrection/ComputeOriginalValue");
  for (long i = 0; i < iters * 4; ++i) {
    int32_t s1[4] = {0}, s2[4] = {0}; struct Wrap a, b; memset(&a, 0, sizeof a); int nc = 1 + rnd64() % 3;
    a.num_components_ = nc; a.min_value_ = rnd_i32(); a.max_value_ = rnd_i32();
    if (rnd64() & 1) { if (a.min_value_ > a.max_value_) { int32_t t = a.min_value_; a.min_value_ = a.max_value_; a.max_value_ = t; } }
    if (rnd64() % 4 == 0) { a.min_value_ = (int32_t)(rnd64() % 2000) - 1000; a.max_value_ = a.min_value_ + (int32_t)(rnd64() % 300); }
    b = a; a.clamped_value_.data = s1; a.clamped_value_.size = nc; b.clamped_value_.data = s2; b.clamped_value_.size = nc;
    bool r1 = Wrap_InitCorrectionBounds(&a), r2 = slice_Wrap_InitCorrectionBounds(&b);
    COSIM_EQ(r1, r2, "init.ret"); COSIM_EQ(a.max_dif_, b.max_dif_, "max_dif"); COSIM_EQ(a.min_correction_, b.min_correction_, "min_corr"); COSIM_EQ(a.max_correction_, b.max_correction_, "max_corr");
    if (!r1 || !r2) continue;
    int32_t pred[3], orig[3], c1[3] = {0}, c2[3] = {0}, o1[3] = {0}, o2[3] = {0};
    for (int k = 0; k < 3; ++k) { pred[k] = rnd_i32(); uint64_t span = (uint64_t)((int64_t)a.max_value_ - a.min_value_) + 1; orig[k] = (int32_t)((int64_t)a.min_value_ + (int64_t)(rnd64() % span)); if (rnd64() % 4 == 0) pred[k] = orig[k] + (int32_t)(rnd64() % 7) - 3; }
    const int32_t *p1 = Wrap_ClampPredictedValue(&a, pred), *p2 = slice_Wrap_ClampPredictedValue(&b, pred); COSIM_MEMEQ(p1, p2, nc * 4, "clamp");
    WrapEnc_ComputeCorrection(&a, orig, pred, c1); slice_WrapEnc_ComputeCorrection(&b, orig, pred, c2); COSIM_MEMEQ(c1, c2, nc * 4, "corr");
    int32_t cc[3]; for (int k = 0; k < 3; ++k) cc[k] = (rnd64() & 1) ? c1[k] : rnd_i32();
    WrapDec_ComputeOriginalValue(&a, pred, cc, o1); slice_WrapDec_ComputeOriginalValue(&b, pred, cc, o2); COSIM_MEMEQ(o1, o2, nc * 4, "orig"); }
  COSIM_END();
  COSIM_BEGIN("WrapDec_DecodeTransformData / CanonDec_DecodeTransformData");
  for (long i = 0; i < iters; ++i) { for (int k = 0; k < 32; ++k) buf[k] = (uint8_t)rnd64(); int n = rnd64() % 12;
    if (rnd64() & 1) { int32_t lo = rnd_i32(), hi = rnd_i32(); if (lo > hi) { int32_t t = lo; lo = hi; hi = t; } memcpy(buf, &lo, 4); memcpy(buf + 4, &hi, 4); }
    struct DecoderBuffer d1; memset(&d1, 0, sizeof d1); d1.data_ = (const char *)buf; d1.data_size_ = n; struct DecoderBuffer d2 = d1;
    struct Wrap a, b; memset(&a, 0, sizeof a); memset(&b, 0, sizeof b);
    COSIM_EQ(WrapDec_DecodeTransformData(&a, &d1), slice_WrapDec_DecodeTransformData(&b, &d2), "ret"); COSIM_EQ(d1.pos_, d2.pos_, "pos"); COSIM_EQ(a.max_dif_, b.max_dif_, "max_dif"); COSIM_EQ(a.min_value_, b.min_value_, "min");
    if (rnd64() & 1) { int32_t mq = (1 << (1 + rnd64() % 31)) - 1; if (rnd64() % 8 == 0) mq = rnd_i32(); memcpy(buf, &mq, 4); }
    d1.pos_ = d2.pos_ = 0; struct OTB x, y; memset(&x, 0xff, sizeof x); memset(&y, 0xff, sizeof y); x.dequantization_scale_ = y.dequantization_scale_ = 1.f;
    COSIM_EQ(CanonDec_DecodeTransformData(&x, &d1), slice_CanonDec_DecodeTransformData(&y, &d2), "ret"); COSIM_EQ(d1.pos_, d2.pos_, "pos"); COSIM_MEMEQ(&x, &y, sizeof x, "toolbox"); }
  COSIM_END();
  COSIM_BEGIN("OctahedronToolBox + canonicalized transform");
  for (long i = 0; i < iters * 4; ++i) { int q = (int)(rnd64() % 34) - 1; struct OTB x, y; memset(&x, 0xff, sizeof x); memset(&y, 0xff, sizeof y); x.dequantization_scale_ = y.dequantization_scale_ = 1.f;
    bool r1 = OTB_SetQuantizationBits(&x, q), r2 = slice_OTB_SetQuantizationBits(&y, q); COSIM_EQ(r1, r2, "setq"); COSIM_MEMEQ(&x, &y, sizeof x, "toolbox");
    if (!r1 || !r2) continue;
    int32_t c = x.center_value_, mv = x.max_value_;
    int32_t s = (int32_t)(rnd64() % ((uint64_t)mv + 1)), t = (int32_t)(rnd64() % ((uint64_t)mv + 1));
    if (rnd64() % 3 == 0) { s = (rnd64() & 1) ? 0 : mv; } if (rnd64() % 3 == 0) { t = (rnd64() & 1) ? 0 : mv; } if (rnd64() % 5 == 0) s = c; if (rnd64() % 5 == 0) t = c;
    int32_t a1, a2, b1, b2; OTB_CanonicalizeOctahedralCoords(&x, s, t, &a1, &a2); slice_OTB_CanonicalizeOctahedralCoords(&y, s, t, &b1, &b2); COSIM_EQ(a1, b1, "canon.s"); COSIM_EQ(a2, b2, "canon.t");
    int32_t ds = s - c, dt = t - c; COSIM_EQ(OTB_IsInDiamond(&x, ds, dt), slice_OTB_IsInDiamond(&y, ds, dt), "indiamond");
    int32_t u1 = ds, u2 = dt, v1 = ds, v2 = dt; OTB_InvertDiamond(&x, &u1, &u2); slice_OTB_InvertDiamond(&y, &v1, &v2); COSIM_EQ(u1, v1, "invert.s"); COSIM_EQ(u2, v2, "invert.t");
    int32_t z = (int32_t)(rnd64() % (4 * (uint64_t)c + 3)) - 2 * c - 1; COSIM_EQ(OTB_ModMax(&x, z), slice_OTB_ModMax(&y, z), "modmax"); COSIM_EQ(OTB_MakePositive(&x, z), slice_OTB_MakePositive(&y, z), "makepos");
    Point2 p; p.v[0] = ds; p.v[1] = dt; COSIM_EQ(Canon_GetRotationCount(&x, p), slice_Canon_GetRotationCount(&y, p), "rotcount"); COSIM_EQ(Canon_IsInBottomLeft(&x, p), slice_Canon_IsInBottomLeft(&y, p), "bottomleft");
    int k = rnd64() % 5; Point2 q1 = Canon_RotatePoint(&x, p, k), q2 = slice_Canon_RotatePoint(&y, p, k); COSIM_EQ(q1.v[0], q2.v[0], "rot.0"); COSIM_EQ(q1.v[1], q2.v[1], "rot.1");
    int32_t iv[3]; iv[0] = (int32_t)(rnd64() % (2 * (uint64_t)c + 1)) - c; int32_t rest = c - (iv[0] < 0 ? -iv[0] : iv[0]); iv[1] = (int32_t)(rnd64() % (2 * (uint64_t)rest + 1)) - rest; iv[2] = rest - (iv[1] < 0 ? -iv[1] : iv[1]); if (rnd64() & 1) iv[2] = -iv[2];
    OTB_IntegerVectorToQuantizedOctahedralCoords(&x, iv, &a1, &a2); slice_OTB_IntegerVectorToQuantizedOctahedralCoords(&y, iv, &b1, &b2); COSIM_EQ(a1, b1, "ivec.s"); COSIM_EQ(a2, b2, "ivec.t");
    int32_t orig[2] = {a1, a2}, pred[2]; OTB_CanonicalizeOctahedralCoords(&x, (int32_t)(rnd64() % ((uint64_t)mv + 1)), (int32_t)(rnd64() % ((uint64_t)mv + 1)), &pred[0], &pred[1]);
    int32_t c1[2], c2[2], o1[2], o2[2]; CanonEnc_ComputeCorrection(&x, orig, pred, c1); slice_CanonEnc_ComputeCorrection(&y, orig, pred, c2); COSIM_MEMEQ(c1, c2, 8, "enc.corr");
    int32_t cc[2] = {c1[0], c1[1]}; if (rnd64() % 4 == 0) { cc[0] = (int32_t)(rnd64() % ((uint64_t)mv + 1)); cc[1] = (int32_t)(rnd64() % ((uint64_t)mv + 1)); }
    CanonDec_ComputeOriginalValue(&x, pred, cc, o1); slice_CanonDec_ComputeOriginalValue(&y, pred, cc, o2); COSIM_MEMEQ(o1, o2, 8, "dec.orig");
    int32_t aa = rnd_i32(), bb = rnd_i32(); COSIM_EQ(AddAsUnsigned_i32(aa, bb), slice_AddAsUnsigned_i32(aa, bb), "addasunsigned");
    int32_t mq = (rnd64() & 1) ? x.max_quantized_value_ : rnd_i32(); struct OTB m1, m2; memset(&m1, 0xff, sizeof m1); memset(&m2, 0xff, sizeof m2); m1.dequantization_scale_ = m2.dequantization_scale_ = 1.f;
    if (mq > 0) { COSIM_EQ(OctT_set_max_quantized_value(&m1, mq), slice_OctT_set_max_quantized_value(&m2, mq), "setmq"); COSIM_MEMEQ(&m1, &m2, sizeof m1, "setmq.box"); } }
  COSIM_END();
COSIM_MAIN_END
