// C17 replay: SymbolBitDecoder read past the written data. exit 0 = reads past the end yield zero without leaving the vector; exit 1 = violated.
#include <csignal>
#include <cstdio>
#include <cstdlib>
#include <unistd.h>
#include "draco/compression/bit_coders/symbol_bit_decoder.h"
#include "draco/compression/bit_coders/symbol_bit_encoder.h"
#include "draco/core/decoder_buffer.h"
#include "draco/core/encoder_buffer.h"
static void on_segv(int) { const char m[] = "VIOLATION: invalid memory access while reading past the written symbols\n"; write(1, m, sizeof m - 1); _exit(1); }
int main(int argc, char **argv) {
  signal(SIGSEGV, on_segv);
  int n = argc > 1 ? atoi(argv[1]) : 0;   // number of symbols written
  draco::SymbolBitEncoder enc; enc.StartEncoding();
  for (int i = 0; i < n; ++i) enc.EncodeLeastSignificantBits32(8, 0xA0 + i);
  draco::EncoderBuffer eb; enc.EndEncoding(&eb);
  draco::DecoderBuffer db; db.Init(eb.data(), eb.size()); db.set_bitstream_version(DRACO_BITSTREAM_VERSION(2, 2));
  draco::SymbolBitDecoder dec;
  if (!dec.StartDecoding(&db)) { printf("StartDecoding failed\n"); return 2; }
  for (int i = 0; i < n; ++i) { uint32_t v = 77; dec.DecodeLeastSignificantBits32(8, &v); if (v != (uint32_t)(0xA0 + i)) { printf("VIOLATION: value %d differs\n", i); return 1; } }
  uint32_t extra = 77; dec.DecodeLeastSignificantBits32(8, &extra);
  printf("read past the end returned %u\n", extra);
  if (extra != 0) { printf("VIOLATION: read past the end is not zero\n"); return 1; }
  uint32_t extra2 = 77; dec.DecodeLeastSignificantBits32(8, &extra2);
  if (extra2 != 0) { printf("VIOLATION: second read past the end is not zero\n"); return 1; }
  printf("OK\n"); return 0;
}
