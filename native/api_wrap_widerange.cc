// Native replay through the public API: INT32 generic attribute whose value
// spread exceeds 2^30, sequential point-cloud encoding, decode, compare.
// usage: api_wrap_widerange v0 v1 v2 ...   (exit 0 = round trip exact, 1 = mismatch, 2 = encode/decode error)
#include <cstdio>
#include <cstdlib>
#include <vector>
#include "draco/compression/encode.h"
#include "draco/compression/decode.h"
#include "draco/point_cloud/point_cloud_builder.h"
int main(int argc, char **argv) {
  std::vector<int32_t> vals;
  for (int i = 1; i < argc; ++i) vals.push_back((int32_t)strtoll(argv[i], nullptr, 10));
  if (vals.empty()) vals = {-2146828287, -524289, 393216, -524289, 393216};
  draco::PointCloudBuilder b;
  b.Start(vals.size());
  int att = b.AddAttribute(draco::GeometryAttribute::GENERIC, 1, draco::DT_INT32);
  for (size_t i = 0; i < vals.size(); ++i) b.SetAttributeValueForPoint(att, draco::PointIndex(i), &vals[i]);
  std::unique_ptr<draco::PointCloud> pc = b.Finalize(false);
  draco::Encoder enc;
  enc.SetEncodingMethod(draco::POINT_CLOUD_SEQUENTIAL_ENCODING);
  draco::EncoderBuffer eb;
  if (!enc.EncodePointCloudToBuffer(*pc, &eb).ok()) { printf("encode failed\n"); return 2; }
  draco::DecoderBuffer db; db.Init(eb.data(), eb.size());
  draco::Decoder dec;
  auto r = dec.DecodePointCloudFromBuffer(&db);
  if (!r.ok()) { printf("decode failed: %s\n", r.status().error_msg()); return 2; }
  auto out = std::move(r).value();
  const draco::PointAttribute *a = out->attribute(0);
  int bad = 0;
  for (size_t i = 0; i < vals.size(); ++i) {
    int32_t v; a->GetMappedValue(draco::PointIndex(i), &v);
    if (v != vals[i]) { if (!bad) printf("first mismatch at %zu: in=%d out=%d\n", i, vals[i], v); ++bad; }
  }
  printf("values=%zu mismatches=%d\n", vals.size(), bad);
  return bad ? 1 : 0;
}
