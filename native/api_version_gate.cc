// Native replay through the public API for the entry sequence (pcdec.Decode): (a) a stream whose header announces a version newer than the
// supported one is rejected with UNKNOWN_VERSION; (b) the decode result does not depend on the bitstream version the caller's DecoderBuffer
// carried before (a reused buffer object).  exit 0 = holds on the real code, 1 = violated, 2 = setup error.
#include <cstdio>
#include <cstring>
#include <vector>
#include "draco/compression/encode.h"
#include "draco/compression/decode.h"
#include "draco/point_cloud/point_cloud_builder.h"
#include "draco/mesh/triangle_soup_mesh_builder.h"
#include "draco/compression/config/compression_shared.h"
static bool same_pc(const draco::PointCloud &a, const draco::PointCloud &b) {
  if (a.num_points() != b.num_points() || a.num_attributes() != b.num_attributes()) return false;
  for (int i = 0; i < a.num_attributes(); ++i) {
    const draco::PointAttribute *x = a.attribute(i), *y = b.attribute(i);
    if (x->size() != y->size() || x->byte_stride() != y->byte_stride()) return false;
    if (memcmp(x->GetAddress(draco::AttributeValueIndex(0)), y->GetAddress(draco::AttributeValueIndex(0)), x->size() * x->byte_stride()) != 0) return false;
  }
  return true;
}
int main() {
  int bad = 0;
  // a mesh stream and a point-cloud stream from the real encoder
  draco::TriangleSoupMeshBuilder mb; mb.Start(2);
  int pa = mb.AddAttribute(draco::GeometryAttribute::POSITION, 3, draco::DT_FLOAT32);
  float p[4][3] = {{0, 0, 0}, {1, 0, 0}, {0, 1, 0}, {1, 1, 0.5f}};
  mb.SetAttributeValuesForFace(pa, draco::FaceIndex(0), p[0], p[1], p[2]); mb.SetAttributeValuesForFace(pa, draco::FaceIndex(1), p[1], p[3], p[2]);
  std::unique_ptr<draco::Mesh> mesh = mb.Finalize();
  draco::Encoder enc; draco::EncoderBuffer mbuf;
  if (!mesh || !enc.EncodeMeshToBuffer(*mesh, &mbuf).ok()) { printf("mesh encode failed\n"); return 2; }
  draco::PointCloudBuilder pb; pb.Start(5); int ga = pb.AddAttribute(draco::GeometryAttribute::GENERIC, 1, draco::DT_INT32);
  for (int i = 0; i < 5; ++i) { int32_t v = 100 * i - 7; pb.SetAttributeValueForPoint(ga, draco::PointIndex(i), &v); }
  std::unique_ptr<draco::PointCloud> pc = pb.Finalize(false);
  draco::Encoder enc2; enc2.SetEncodingMethod(draco::POINT_CLOUD_SEQUENTIAL_ENCODING); draco::EncoderBuffer pbuf;
  if (!enc2.EncodePointCloudToBuffer(*pc, &pbuf).ok()) { printf("point cloud encode failed\n"); return 2; }
  // (a) newer versions are rejected with a version error
  struct { const draco::EncoderBuffer *b; bool is_mesh; uint8_t maj, min; } cases[] = {
      {&mbuf, true, draco::kDracoMeshBitstreamVersionMajor, (uint8_t)(draco::kDracoMeshBitstreamVersionMinor + 1)},
      {&mbuf, true, (uint8_t)(draco::kDracoMeshBitstreamVersionMajor + 1), 0},
      {&pbuf, false, draco::kDracoPointCloudBitstreamVersionMajor, (uint8_t)(draco::kDracoPointCloudBitstreamVersionMinor + 1)},
      {&mbuf, true, 0, 9}};
  for (auto &c : cases) {
    std::vector<char> s(c.b->data(), c.b->data() + c.b->size()); s[5] = (char)c.maj; s[6] = (char)c.min;
    draco::DecoderBuffer db; db.Init(s.data(), s.size()); draco::Decoder dec;
    draco::Status st = c.is_mesh ? dec.DecodeMeshFromBuffer(&db).status() : dec.DecodePointCloudFromBuffer(&db).status();
    if (st.code() != draco::Status::UNKNOWN_VERSION) { printf("VIOLATION: %s stream announcing version %d.%d was not rejected with UNKNOWN_VERSION (code %d: %s)\n", c.is_mesh ? "mesh" : "point cloud", c.maj, c.min, (int)st.code(), st.error_msg()); bad = 1; }
  }
  // (b) a buffer object that carried another bitstream version before decodes to the same geometry
  {
    draco::DecoderBuffer fresh; fresh.Init(pbuf.data(), pbuf.size()); draco::Decoder d1; auto r1 = d1.DecodePointCloudFromBuffer(&fresh);
    draco::DecoderBuffer reused; reused.Init(pbuf.data(), pbuf.size()); reused.set_bitstream_version(DRACO_BITSTREAM_VERSION(1, 1)); draco::Decoder d2; auto r2 = d2.DecodePointCloudFromBuffer(&reused);
    if (!r1.ok()) { printf("control decode failed\n"); return 2; }
    if (!r2.ok() || !same_pc(*r1.value(), *r2.value())) { printf("VIOLATION: decoding through a buffer that carried bitstream version 1.1 before gives a different result (%s)\n", r2.ok() ? "different geometry" : r2.status().error_msg()); bad = 1; }
    draco::DecoderBuffer reused_m; reused_m.Init(mbuf.data(), mbuf.size()); reused_m.set_bitstream_version(DRACO_BITSTREAM_VERSION(1, 1)); draco::Decoder d3; auto r3 = d3.DecodeMeshFromBuffer(&reused_m);
    draco::DecoderBuffer fresh_m; fresh_m.Init(mbuf.data(), mbuf.size()); draco::Decoder d4; auto r4 = d4.DecodeMeshFromBuffer(&fresh_m);
    if (!r4.ok()) { printf("control mesh decode failed\n"); return 2; }
    if (!r3.ok() || r3.value()->num_faces() != r4.value()->num_faces() || !same_pc(*r3.value(), *r4.value())) { printf("VIOLATION: mesh decode through a reused buffer differs (%s)\n", r3.ok() ? "different geometry" : r3.status().error_msg()); bad = 1; }
  }
  printf(bad ? "property violated on the real code\n" : "OK\n");
  return bad;
}
