// Native shims for unit 'symbols': RAnsSymbolDecoder<5> (rans precision 12) Create/StartDecoding and the precision functions -> REAL draco code.
#include <cstring>
#include <cstdio>
#include <cstdlib>
#include <vector>
#include "draco/compression/entropy/rans_symbol_decoder.h"
#include "draco/compression/entropy/rans_symbol_coding.h"
extern "C" {
#include "vec.h"
#include "vec_ans.h"
#include "core_types.h"
#define rans_precision_bits_t 12
#define AnsCoder c_AnsCoder
#define AnsDecoder c_AnsDecoder
#define rans_sym c_rans_sym
#define rans_dec_sym c_rans_dec_sym
#define RAnsEncoder c_RAnsEncoder
#define RAnsDecoder c_RAnsDecoder
#define fastdiv_elem c_fastdiv_elem
#define vp10_fastdiv_tab c_vp10_fastdiv_tab_sy
#include "ans_types.h"
#include "symbols_types.h"
#undef AnsCoder
#undef AnsDecoder
#undef rans_sym
#undef rans_dec_sym
#undef RAnsEncoder
#undef RAnsDecoder
}
typedef draco::RAnsSymbolDecoder<5> RealRSD;   // ComputeRAnsPrecisionFromUniqueSymbolsBitLength(5) == 12
static inline draco::DecoderBuffer *DB(struct ::DecoderBuffer *b) { return reinterpret_cast<draco::DecoderBuffer *>(b); }
extern "C" {
int ComputeRAnsUnclampedPrecision(int b) { return draco::ComputeRAnsUnclampedPrecision(b); }
int ComputeRAnsPrecisionFromUniqueSymbolsBitLength(int b) { return draco::ComputeRAnsPrecisionFromUniqueSymbolsBitLength(b); }
bool RSD_Create(struct RSD *d, struct ::DecoderBuffer *b) {
  RealRSD r; bool ok = r.Create(DB(b));
  d->num_symbols_ = r.num_symbols_;
  if (r.probability_table_.size() <= d->probability_table_.cap) { d->probability_table_.size = r.probability_table_.size(); if (d->probability_table_.size) memcpy(d->probability_table_.data, r.probability_table_.data(), d->probability_table_.size * 4); }
  if (ok) { memcpy(d->ans_->lut_table_.data, r.ans_.lut_table_.data(), r.ans_.lut_table_.size() * 4); d->ans_->lut_table_.size = r.ans_.lut_table_.size(); }
  return ok;
}
bool RSD_StartDecoding(struct RSD *d, struct ::DecoderBuffer *b) { RealRSD r; bool ok = r.StartDecoding(DB(b)); memcpy(&d->ans_->ans_, &r.ans_.ans_, sizeof r.ans_.ans_); return ok; }
}
