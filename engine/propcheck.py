#!/usr/bin/env python3
"""Property-level driver: runs every job registered for a property, the vacuity probes, the co-simulation of
the sliced text against the real compiled code, the static scans; writes evidence/<id>.json; prints VIOLATION /
KNOWN-FINDING lines.  Exit codes per DESIGN.md §3.5."""
import sys, os, json, re, time, importlib, subprocess, shutil, hashlib
from concurrent.futures import ThreadPoolExecutor
from engine import slicer, pipeline, native

VERIF = os.path.dirname(os.path.dirname(os.path.abspath(__file__)))
REPO = os.environ.get('VERIF_REPO', '/repo')
NCPU = int(os.environ.get('VERIF_JOBS', '16'))
# developer overrides used by tools/eval_seed.py only (never by the registered commands): write build output, evidence and replay files
# somewhere else, and restrict the run to some units
OUT = os.environ.get('VERIF_OUT', VERIF)
ONLY_UNITS = [u for u in os.environ.get('VERIF_ONLY_UNITS', '').split(',') if u]

def all_units():
    names = []
    for f in sorted(os.listdir(os.path.join(VERIF, 'units'))):
        if f.endswith('.py') and not f.startswith('_'): names.append(f[:-3])
    return names

def known_findings():
    out = []
    p = os.path.join(VERIF, 'known_findings.txt')
    if os.path.exists(p):
        for l in open(p):
            l = l.strip()
            m = re.match(r'finding:\s+property=(\S+)\s+obligation=(\S+)\s+(.*)', l)
            if m: out.append({'property': m.group(1), 'obligation': m.group(2), 'text': m.group(3)})
    return out

def main(argv):
    prop = argv[0]
    tier = os.environ.get('VERIF_TIER', 'quick')
    if '--tier' in argv: tier = argv[argv.index('--tier') + 1]
    seed = int(os.environ.get('VERIF_SEED', '1'))
    t0 = time.time()
    build = os.path.join(OUT, 'build', prop + '.' + tier)
    shutil.rmtree(build, ignore_errors=True)
    gendir = os.path.join(build, 'gen'); work = os.path.join(build, 'work')
    os.makedirs(gendir); os.makedirs(work)
    inconclusive = []; static_violations = []
    # 1. slices, regenerated from the working tree
    units = {}; slice_recs = {}
    def emit(name, mod):
        t, f, recs = slicer.generate(REPO, mod.UNIT)
        t = re.sub(r'\n[ \t]+\n', '\n\n', t); f = re.sub(r'(\n[ \t]*){3,}', '\n\n', f)
        open(os.path.join(gendir, name + '_types.h'), 'w').write(t)
        open(os.path.join(gendir, name + '_slice.c'), 'w').write(f)
        open(os.path.join(gendir, name + '_protos.h'), 'w').write(''.join(fn['sig'] + ';\n' for fn in mod.UNIT['functions']))
        return recs
    emitted = set()
    for name in all_units():
        mod = importlib.import_module('units.' + name)
        jobs = [j for j in mod.JOBS if prop in j.get('props', []) and not (tier == 'quick' and j.get('tier') == 'thorough')]
        if not jobs: continue
        if ONLY_UNITS and name not in ONLY_UNITS: continue
        try:
            for dep in getattr(mod, 'DEPS', []):
                if dep not in emitted:
                    emit(dep, importlib.import_module('units.' + dep)); emitted.add(dep)
            recs = emit(name, mod); emitted.add(name)
        except slicer.SliceError as e:
            print('INCONCLUSIVE: slicer: %s' % e); inconclusive.append('slicer[%s]: %s' % (name, e)); continue
        # pre-flight: the unit's translation unit must compile; a sliced function that does not (a construct outside the subset that no LEFTOVER
        # pattern caught) is taken out of the slice (prototype only) so that the jobs that do not need it still run
        for attempt in range(4):
            j0 = jobs[0]
            cc = ['goto-cc', '--function', j0['entry'], '-DVERIF_CBMC'] + list(j0.get('defines', [])) + ['-I', os.path.join(VERIF, 'contracts'), '-I', gendir, '-I', os.path.join(VERIF, 'stubs'),
                  os.path.join(VERIF, j0['src']), '-o', os.path.join(build, 'preflight_%s.gb' % name)]
            pr = subprocess.run(cc, stdout=subprocess.PIPE, stderr=subprocess.PIPE)
            if pr.returncode == 0: break
            err = pr.stderr.decode(errors='replace') + pr.stdout.decode(errors='replace')
            fm = re.search(r"_slice\.c: In function '(\w+)'", err)
            fnames = {f['name'] for f in mod.UNIT['functions']}
            if not fm or fm.group(1) not in fnames or fm.group(1) in mod.UNIT.get('exclude', {}): break
            first = next((l for l in err.splitlines() if 'error' in l), err.strip().splitlines()[-1] if err.strip() else '?')
            mod.UNIT.setdefault('exclude', {})[fm.group(1)] = '%s: sliced text is not C (%s)' % (fm.group(1), first.strip()[:200])
            try:
                recs = emit(name, mod)
            except slicer.SliceError as e:
                print('INCONCLUSIVE: slicer: %s' % e); inconclusive.append('slicer[%s]: %s' % (name, e)); recs = None; break
        if recs is None: continue
        units[name] = (mod, jobs); slice_recs[name] = recs
        dropped = {rec['name'] for rec in recs if rec.get('rules', {}).get('R-loop.dropped')}
        if dropped:
            kept = []
            for j in jobs:
                if j.get('loops') and j.get('enforce') in dropped:
                    msg = '%s: a loop of %s that carried a loop contract was rewritten: the function contract needs a new loop invariant (not a violation)' % (j['id'], j['enforce'])
                    print('INCONCLUSIVE: ' + msg); inconclusive.append(msg)
                else: kept.append(j)
            jobs = kept; units[name] = (mod, jobs)
        for rec in recs:
            if rec.get('error'):
                print('INCONCLUSIVE: slicer: %s' % rec['error']); inconclusive.append('slicer[%s.%s]: %s' % (name, rec['name'], rec['error']))
    if not units and not inconclusive and not ONLY_UNITS:
        print('no jobs registered for', prop); return 2
    # 2. jobs + vacuity probes
    tasks = []
    for name, (mod, jobs) in units.items():
        for j in jobs:
            tasks.append((j, False))
            if not j.get('no_vacuity'): tasks.append((j, True))
    # longest first
    tasks.sort(key=lambda jv: -jv[0].get('cost', 1))
    results = []
    with ThreadPoolExecutor(max_workers=NCPU) as ex:
        futs = [ex.submit(pipeline.run_job, j, gendir, work, vac) for j, vac in tasks]
        for f in futs: results.append(f.result())
    # 3. co-simulation and native builds
    cosim = {}
    for name, (mod, jobs) in units.items():
        if getattr(mod, 'COSIM', None):
            r = native.cosim(name, mod, gendir, build, REPO, seed, 200 if tier == 'quick' else 5000)
            cosim[name] = r
            if r['status'] != 'ok':
                inconclusive.append('cosim[%s]: %s' % (name, r['reason']))
                print('INCONCLUSIVE: co-simulation of unit %s: %s' % (name, r['reason'][:500]))
    # 3b. supporting static fact for C05: version-gate table (reported separately, never counted as an obligation)
    static_facts = {}
    if prop == 'C05':
        from engine import gates
        g = gates.check(REPO); static_facts['version_gates'] = g
        for ch in g['changed']:
            rp = os.path.join(OUT, 'replays', 'C05.version_gate.%s.json' % re.sub(r'[^A-Za-z0-9_.-]', '_', ch['function'])[-80:])
            os.makedirs(os.path.dirname(rp), exist_ok=True)
            json.dump({'property': 'C05', 'obligation': 'static.version_gate_table', 'description': 'a bitstream-version gate of the pinned decoder was removed or altered', 'detail': ch,
                       'native_replay': {'status': 'no-adapter', 'detail': 'static fact: no input; see DESIGN.md A.11'}}, open(rp, 'w'), indent=1)
            print('VIOLATION property=C05 replay=%s obligation=static.version_gate_table [%s: frozen %s, now %s] no-failing-input-found' % (rp, ch['function'].split('::', 1)[1], ch['frozen'], ch['current']))
            static_violations.append(ch)
        for nf in g['not_found']:
            inconclusive.append('version gate table: function %s not found' % nf['function']); print('INCONCLUSIVE: version gate table: %s not found' % nf['function'])
    # 4. aggregate
    filtered = []
    n_obl = n_ok = 0; violations = []; vac_fired = 0; bounded = []; per_job = []; samples = []
    kf = [k for k in known_findings() if k['property'] == prop]; kf_hit = []
    for r in results:
        j = next(jj for (jj, v) in tasks if jj['id'] == r['job'])
        if r['vacuity']:
            if r['status'] == 'ok': vac_fired += 1
            else:
                inconclusive.append('vacuity[%s]: %s' % (r['job'], r['reason'] or r['status']))
                print('INCONCLUSIVE: %s: %s' % (r['id'], (r['reason'] or r['status'])[:300]))
            continue
        if r['status'] == 'inconclusive' and j.get('may_time_out') and r['reason'].startswith('timeout'):
            # instances known to sit at the edge of what the back ends decide (thorough tier): a timeout is reported as undecided in the evidence
            # and in the output, it is not counted as discharged, and it does not turn the run into a failure
            print('UNDECIDED: %s: %s' % (r['job'], r['reason'][:200]))
            per_job.append({'job': r['job'], 'status': 'undecided', 'reason': r['reason'][:200]})
            continue
        if r['status'] == 'inconclusive':
            inconclusive.append('%s: %s' % (r['job'], r['reason']))
            print('INCONCLUSIVE: %s: %s' % (r['job'], r['reason'][:300]))
            per_job.append({'job': r['job'], 'status': 'undecided', 'reason': r['reason'][:200]})
            continue
        is_bounded = j.get('unwind') is not None and (j.get('unwind_reason') or '').startswith('bounded')
        n = len(r['obligations']) - len(r.get('ignored', [])); ok = sum(1 for o in r['obligations'] if o['status'] == 'SUCCESS')
        for o in r.get('ignored', []): filtered.append({'job': r['job'], 'obligation': o['name'], 'description': o['desc'], 'reason': next(rs for p, rs in j.get('ignore', []) if re.search(p, o['desc'] or ''))})
        exp = j.get('expect_fail', [])
        ok += sum(1 for o in r['obligations'] if o['status'] != 'SUCCESS' and any(re.search(p, o['desc'] or '') for p in exp))
        pj = {'job': r['job'], 'entry': j['entry'], 'enforce': j.get('enforce'), 'replace': j.get('replace'), 'loop_contracts': bool(j.get('loops')),
              'unwind': j.get('unwind'), 'unwind_reason': j.get('unwind_reason'), 'solver': j.get('solver') or 'minisat (cbmc built-in)',
              'obligations': n, 'discharged': ok, 'seconds': r.get('seconds'), 'bounded': is_bounded}
        per_job.append(pj)
        if is_bounded: bounded.append(pj)
        else: n_obl += n; n_ok += ok
        if len(samples) < 12 and r['obligations']:
            o = r['obligations'][min(len(r['obligations']) - 1, 7)]
            samples.append({'job': r['job'], 'obligation': o['name'], 'description': o['desc'], 'location': o['loc'], 'status': o['status']})
        # triage: a failed precondition of a call replaced by its contract makes dfcc's later bookkeeping obligations of the same job fail too
        # (measured, DESIGN A.5): when a job has failed `precondition` obligations only those are reported, the rest are their echo
        pre = [o for o in r['failed'] if '.precondition.' in (o['name'] or '')]
        for o in (pre if pre else r['failed']):
            hit = next((k for k in kf if re.search(k['obligation'], (o['desc'] or '') + ' ' + (o['name'] or ''))), None)
            if hit:
                kf_hit.append((hit, o)); n_ok += 0
                continue
            violations.append((j, r, o))
    for hit, o in kf_hit:
        print('KNOWN-FINDING: property=%s %s (%s)' % (prop, hit['text'], o['desc']))
    # 5. violations -> replay files
    os.makedirs(os.path.join(OUT, 'replays'), exist_ok=True)
    seen = set(); vcount = 0
    for j, r, o in violations:
        key = (j['id'], o['desc'] if (o['desc'] or '').count('.') else o['name'])
        if key in seen: continue
        seen.add(key); vcount += 1
        rp = os.path.join(OUT, 'replays', '%s.%s.json' % (prop, re.sub(r'[^A-Za-z0-9_.-]', '_', j['id'] + '.' + (o['name'] or 'x'))))
        rec = {'property': prop, 'job': j['id'], 'obligation': o['name'], 'description': o['desc'], 'location': o['loc'], 'entry': j['entry'],
               'inputs': o.get('trace', {}), 'verifier_log': r['log'], 'repo': REPO}
        nat = native.replay(j, o, gendir, build, REPO) if j.get('native') else native.replay_api(j, build, REPO) if j.get('native_api') else {'status': 'no-adapter', 'detail': 'obligation is checked under contract abstraction / symbolic memory; no native adapter for this harness'}
        rec['native_replay'] = nat
        json.dump(rec, open(rp, 'w'), indent=1)
        tail = '' if nat.get('status') == 'reproduced' else ' no-failing-input-found'
        print('VIOLATION property=%s replay=%s obligation=%s [%s]%s' % (prop, rp, o['name'], o['desc'], tail))
    vcount += len(static_violations)
    wall = time.time() - t0
    # 6. evidence
    assumptions = assumption_scan(units, slice_recs)
    level = 'proof'
    funcs = []
    for name, recs in slice_recs.items():
        used = set()
        for j in units[name][1]:
            if j.get('enforce'): used.add(j['enforce'])
            for x in j.get('replace', []): used.add(x)
        for rec in recs:
            funcs.append({'c_name': rec['name'], 'source': '%s:%d' % (rec['file'], rec['line']), 'rules_fired': rec['rules'],
                          'contract_enforced_in_this_run': rec['name'] in {j.get('enforce') for j in units[name][1]}})
    ev = {'property_id': prop, 'tier': tier, 'seed': seed, 'level': level,
          'coverage': {
              'obligations': n_obl, 'discharged': n_ok,
              'checker_cmd': 'per job: goto-cc --function <harness> contracts/<unit>.c (+ slice regenerated from %s) ; goto-instrument --dfcc <harness> --enforce-contract <f> --replace-call-with-contract <g>... [--apply-loop-contracts] ; cbmc --json-ui [--unwind W --unwinding-assertions] (CBMC 6 standard checks: bounds, pointer, signed overflow, shift, div-by-zero, pointer-primitive). Exact command lines: build/%s.%s/work/*/ and per_job[].' % (REPO, prop, tier),
              'trusted_base': assumptions,
              'explanation': 'obligations/discharged count CBMC properties of all unbounded jobs (function contracts enforced through goto-instrument --dfcc, lemma harnesses over contracts, loop contracts; width-bounded loops unwound with unwinding assertions = complete). Jobs capped by an input-length unwind are listed under bounded and are NOT counted.',
              'samples': samples,
              'per_job': per_job,
              'bounded_standins': bounded,
              'filtered_obligations': filtered,
              'undecided': [p for p in per_job if p.get('status') == 'undecided'],
              'vacuity_probes_fired': vac_fired,
              'functions_sliced': len(funcs),
              'functions_under_contract': [f for f in funcs if f['contract_enforced_in_this_run']],
              'functions_sliced_not_enforced_here': [f['c_name'] for f in funcs if not f['contract_enforced_in_this_run']],
              'cosim': cosim,
              'static_facts': static_facts,
              'solver_seconds_total': round(sum(p.get('seconds') or 0 for p in per_job), 1),
          },
          'assumptions': assumptions, 'wall_s': round(wall, 1), 'violations': vcount}
    os.makedirs(os.path.join(OUT, 'evidence'), exist_ok=True)
    json.dump(ev, open(os.path.join(OUT, 'evidence', prop + '.json'), 'w'), indent=1)
    print('%s tier=%s: %d jobs, %d obligations, %d discharged, %d vacuity probes fired, %d violations, %d inconclusive, %.0fs' % (
        prop, tier, len([p for p in per_job]), n_obl, n_ok, vac_fired, vcount, len(inconclusive), wall))
    if vcount: return 1
    if inconclusive: return 2
    return 0

def assumption_scan(units, slice_recs):
    a = ['CBMC 6.11 (C front end, goto-instrument --dfcc contract instrumentation, SAT back end) is trusted',
         'slicer rule set (DESIGN.md 3.1) preserves semantics: guarded by native co-simulation of the sliced text against the real compiled functions',
         'machine integers are modelled exactly as bit-vectors (x86-64, little endian, LP64)',
         'build feature set: DRACO_BACKWARDS_COMPATIBILITY_SUPPORTED defined, DRACO_DCHECK* expand to nothing (release build)']
    for name, (mod, jobs) in units.items():
        for x in getattr(mod, 'ASSUMPTIONS', []): a.append('[%s] %s' % (name, x))
        src = open(os.path.join(VERIF, jobs[0]['src'])).read()
        n = len(re.findall(r'__CPROVER_assume|\bASSUME\(', src))
        a.append('[%s] %d ASSUME/__CPROVER_assume occurrences in %s (harness input domains; each guarded by a vacuity probe)' % (name, n, jobs[0]['src']))
        rep = set()
        enf = set()
        allmod = importlib.import_module('units.' + name)
        for j in allmod.JOBS:
            if j.get('enforce'): enf.add(j['enforce'])
        for j in jobs:
            for x in j.get('replace', []):
                if x not in enf and not (x.endswith('_rec') and x[:-4] in enf): rep.add(x)
        if rep: a.append('[%s] contracts used at call sites but enforced in no job (assumed): %s' % (name, ', '.join(sorted(rep))))
    return a
