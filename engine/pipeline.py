#!/usr/bin/env python3
"""goto-cc -> goto-instrument --dfcc -> cbmc, one job at a time (parallelised by the caller).

A job (dict):
  id        unique name, becomes the prefix of every obligation it generates
  src       C file (contracts + harnesses) relative to /verif
  entry     harness function
  enforce   function whose contract is enforced (or None)
  replace   [functions replaced by their contracts]
  loops     True -> --apply-loop-contracts
  unwind    int or None; when set --unwinding-assertions is on, so a passing run is complete
  unwind_reason  why that bound is complete (operand width ...) or 'bounded' => reported as bounded stand-in
  defines   [-D...]
  cbmc      [extra cbmc flags]
  solver    None (built-in minisat), 'cadical', 'cvc5', 'z3', 'kissat'
  timeout   seconds
  expect_fail  [regex on obligation description]: obligations that MUST fail (vacuity probes, negative controls)
"""
import json, os, re, subprocess, time, shutil, resource

VERIF = os.path.dirname(os.path.dirname(os.path.abspath(__file__)))
MEM_LIMIT_KB = 12 * 1024 * 1024

def _limits():
    resource.setrlimit(resource.RLIMIT_AS, (MEM_LIMIT_KB * 1024, MEM_LIMIT_KB * 1024))

def sh(cmd, cwd, timeout, log):
    t0 = time.time()
    try:
        p = subprocess.run(cmd, cwd=cwd, stdout=subprocess.PIPE, stderr=subprocess.PIPE, timeout=timeout, preexec_fn=_limits)
        out, err, rc = p.stdout.decode(errors='replace'), p.stderr.decode(errors='replace'), p.returncode
    except subprocess.TimeoutExpired as e:
        out = (e.stdout or b'').decode(errors='replace'); err = (e.stderr or b'').decode(errors='replace'); rc = -9
    log.append({'cmd': ' '.join(cmd), 'rc': rc, 's': round(time.time() - t0, 2)})
    return rc, out, err

SOLVER_FLAGS = {None: [], 'minisat': [], 'cadical': ['--sat-solver', 'cadical'], 'cvc5': ['--cvc5'], 'z3': ['--z3'],
                'kissat': ['--external-sat-solver', 'kissat']}

def run_job(job, gendir, workroot, vacuity=False, trace=True):
    """Returns dict: status in {'ok','fail','inconclusive'}, obligations [...], failed [...], log, seconds, reason."""
    jid = job['id'] + ('.vacuity' if vacuity else '')
    wd = os.path.join(workroot, re.sub(r'[^A-Za-z0-9_.-]', '_', jid))
    shutil.rmtree(wd, ignore_errors=True); os.makedirs(wd)
    log = []; t0 = time.time()
    res = {'id': jid, 'job': job['id'], 'status': 'inconclusive', 'obligations': [], 'failed': [], 'log': log, 'reason': '', 'vacuity': vacuity}
    timeout = job.get('timeout', 1500)
    defs = ['-DVERIF_CBMC'] + list(job.get('defines', [])) + (['-DVACUITY'] if vacuity else [])
    src = os.path.join(VERIF, job['src'])
    cc = ['goto-cc', '--function', job['entry']] + defs + ['-I', os.path.join(VERIF, 'contracts'), '-I', gendir, '-I', os.path.join(VERIF, 'stubs'), src, '-o', 'a.gb']
    rc, out, err = sh(cc, wd, 120, log)
    if rc != 0:
        res['reason'] = 'goto-cc failed: ' + (err + out)[-1500:]; return res
    binf = 'a.gb'
    if job.get('enforce') or job.get('replace') or job.get('loops'):
        gi = ['goto-instrument', '--dfcc', job['entry']]
        if job.get('enforce'): gi += ['--enforce-contract', job['enforce']]
        # a callee that the (possibly modified) code no longer calls has no symbol in the binary; dfcc aborts on unknown names
        rc0, symtab, _ = sh(['goto-instrument', '--show-symbol-table', 'a.gb'], wd, 120, log)
        present = set(re.findall(r'^Symbol\.*: (\S+)', symtab, re.M))
        for r in job.get('replace', []):
            if r in present: gi += ['--replace-call-with-contract', r]
            else: res.setdefault('skipped_replace', []).append(r)
        if job.get('loops'): gi += ['--apply-loop-contracts']
        gi += ['a.gb', 'b.gb']
        rc, out, err = sh(gi, wd, 300, log)
        if rc != 0:
            res['reason'] = 'goto-instrument failed: ' + (err + out)[-1500:]; return res
        binf = 'b.gb'
    cb = ['cbmc', binf, '--json-ui'] + SOLVER_FLAGS[job.get('solver')] + list(job.get('cbmc', []))
    if job.get('unwind') is not None:
        cb += ['--unwind', str(job['unwind']), '--unwinding-assertions']
    if trace and not vacuity: cb += ['--trace']
    if vacuity:
        # the probe only needs its own assertion: look up its property id and check nothing else (cuts the cost of a probe from
        # "the whole proof again" to one satisfiable query)
        rcp, outp, _ = sh(['cbmc', binf, '--show-properties', '--json-ui'], wd, 300, log)
        vid = []
        try:
            for e in json.loads(outp):
                if isinstance(e, dict) and 'properties' in e:
                    for pr in e['properties']:
                        if pr.get('description') == 'vacuity': vid.append(pr.get('name'))
        except Exception:
            vid = []
        for v in vid: cb += ['--property', v]
    rc, out, err = sh(cb, wd, timeout, log)
    res['seconds'] = round(time.time() - t0, 2)
    if rc == -9:
        res['reason'] = 'timeout after %ds' % timeout; return res
    try:
        data = json.loads(out)
    except Exception:
        res['reason'] = 'cbmc output not JSON (rc=%d): %s' % (rc, (err + out)[-800:]); return res
    results = None; msgs = []
    for e in data:
        if isinstance(e, dict) and 'result' in e: results = e['result']
        if isinstance(e, dict) and e.get('messageType') in ('ERROR', 'WARNING'): msgs.append(e.get('messageText', ''))
    res['warnings'] = msgs[:20]
    if results is None:
        res['reason'] = 'cbmc gave no result (rc=%d): %s' % (rc, ' | '.join(msgs)[-800:]); return res
    if any('ignoring' in m and ('forall' in m or 'exists' in m) for m in msgs):
        res['reason'] = 'quantifier ignored by back end'; return res
    obl = []; failed = []
    nobody = [r.get('property') for r in results if ('.no-body.' in (r.get('property') or '') or 'undefined function should be unreachable' in (r.get('description') or '')) and r.get('status') != 'SUCCESS']
    if nobody and not vacuity:
        res['reason'] = 'sliced code calls functions that are outside the slice (needs contract; not a violation): ' + ', '.join(sorted(set(nobody))[:6]); return res
    for r in results:
        o = {'name': r.get('property'), 'desc': r.get('description'), 'status': r.get('status'),
             'loc': '%s:%s' % (r.get('sourceLocation', {}).get('file', '?'), r.get('sourceLocation', {}).get('line', '?'))}
        obl.append(o)
        if r.get('status') != 'SUCCESS':
            o['trace'] = extract_inputs(r.get('trace', []), job['entry'])
            failed.append(o)
    res['obligations'] = obl; res['failed'] = failed
    exp = job.get('expect_fail', [])
    if vacuity:
        vf = [o for o in failed if o['desc'] == 'vacuity']
        res['status'] = 'ok' if vf else 'fail'
        if not vf: res['reason'] = 'vacuity probe did not fire: preconditions unsatisfiable or harness does not return'
        return res
    ign = [p for p, _ in job.get('ignore', [])]
    for o in failed:
        if any(re.search(p, o['desc'] or '') for p in ign): o['ignored'] = True
    res['ignored'] = [o for o in failed if o.get('ignored')]
    failed = [o for o in failed if not o.get('ignored')]
    unexpected = [o for o in failed if not any(re.search(p, o['desc'] or '') for p in exp)]
    missing = [p for p in exp if not any(re.search(p, o['desc'] or '') for o in failed)]
    if missing:
        res['status'] = 'inconclusive'; res['reason'] = 'negative control did not fail: %s' % missing; return res
    # limits of the HARNESS (an unwinding bound that is too small for the code as it is now, the fixed capacity of a container model) are not
    # statements about draco: such a failure makes the job undecided, never a violation
    # width-derived bounds are part of the claim (termination); input-length caps of bounded stand-ins are not -- unless the job says that the cap
    # IS the claim (loops that must be bounded by the remaining input, run with a small remaining input)
    bounded_job = (job.get('unwind_reason') or '').startswith('bounded') and not job.get('unwind_is_claim')
    limits = [o for o in unexpected if (bounded_job and ('.unwind.' in (o['name'] or '') or '.recursion.' in (o['name'] or ''))) or (o['desc'] or '').startswith('stub:')]
    if limits and any(o not in limits for o in unexpected): limits = []   # something else failed as well: report that
    if limits:
        res['failed'] = []; res['status'] = 'inconclusive'
        res['reason'] = 'harness limit reached (needs a larger bound / model; not a violation): ' + ', '.join('%s [%s]' % (o['name'], o['desc']) for o in limits[:4]); return res
    res['failed'] = unexpected
    res['status'] = 'fail' if unexpected else 'ok'
    if not obl: res['status'] = 'inconclusive'; res['reason'] = 'zero obligations'
    return res

def extract_inputs(trace, entry):
    """First visible assignment to each variable of the harness = the verifier's choice for that input."""
    vals = {}
    for st in trace:
        if st.get('stepType') != 'assignment' or st.get('hidden'): continue
        if st.get('sourceLocation', {}).get('function') != entry: continue
        if st.get('assignmentType') != 'variable': continue
        lhs = st.get('lhs')
        if lhs is None or lhs in vals: continue
        if lhs.startswith('return_value') or lhs.startswith('goto_symex') or lhs.startswith('__CPROVER') or lhs.startswith('tmp_'): continue
        v = st.get('value', {})
        if 'binary' in v:
            vals[lhs] = {'data': v.get('data'), 'binary': v.get('binary'), 'type': v.get('type')}
        elif v.get('name') == 'pointer':
            continue
        else:
            vals[lhs] = {'data': v.get('data'), 'raw': json.dumps(v)[:400]}
    return vals
