#!/usr/bin/env python3
"""Mechanical C++ -> C slicer (DESIGN.md §3.1, route B).

The body text of every function under contract is copied from /repo's working tree on
every run and rewritten by a closed list of rules.  Nothing here knows what the code
is supposed to compute.  Any rule marked as required that does not fire, any anchor
that does not match exactly once, any leftover C++ construct => SliceError (the check
exits 2 = inconclusive, never a violation).

A slice spec (python dict, see /verif/units/*.py):
  name     C name of the emitted function
  file     path relative to the repository root
  anchor   regex (matched on comment-stripped text, DOTALL) that must match exactly once;
           the body is the brace-balanced block starting at the first '{' at/after the match end
  sig      C signature to emit (the C++ signature is replaced, the anchor pins its text)
  tparams  {template type parameter: C type}            (rule R-tmpl)
  members  [names] -> self->name                        (rule R-self)
  subst    [(regex, replacement, min_count)]            (per-function listed rewrites; each must fire >= min_count)
  loops    {ordinal: "loop contract text"}              (rule R-loop; ordinal counts for/while/do headers in the body)
  drop_dcheck  True: DRACO_DCHECK* lines removed (as the release build does); False: turned into __CPROVER_assert
A struct spec:
  struct   C struct name
  file     path
  fields   [(c_decl, regex that must match in the comment-stripped file)]
"""
import re, os

class SliceError(Exception):
    pass

def strip_comments(text):
    """Replace comments by spaces (keeps offsets and newlines). Strings are respected."""
    out = []
    i, n = 0, len(text)
    while i < n:
        c = text[i]
        if c == '"' or c == "'":
            q = c; j = i + 1
            while j < n and text[j] != q:
                if text[j] == '\\': j += 1
                j += 1
            out.append(text[i:j+1]); i = j + 1
        elif text.startswith('//', i):
            j = text.find('\n', i)
            if j < 0: j = n
            out.append(' ' * (j - i)); i = j
        elif text.startswith('/*', i):
            j = text.find('*/', i + 2)
            j = n if j < 0 else j + 2
            out.append(re.sub(r'[^\n]', ' ', text[i:j])); i = j
        else:
            out.append(c); i += 1
    return ''.join(out)

def match_brace(text, start):
    """text[start] == '{' -> index of matching '}'."""
    assert text[start] == '{'
    depth = 0; i = start; n = len(text)
    while i < n:
        c = text[i]
        if c == '"' or c == "'":
            q = c; i += 1
            while i < n and text[i] != q:
                if text[i] == '\\': i += 1
                i += 1
        elif c == '{': depth += 1
        elif c == '}':
            depth -= 1
            if depth == 0: return i
        i += 1
    raise SliceError('unbalanced braces')

def match_paren(text, start, open_c='(', close_c=')'):
    assert text[start] == open_c, (text[start-10:start+10])
    depth = 0; i = start; n = len(text)
    while i < n:
        c = text[i]
        if c == open_c: depth += 1
        elif c == close_c:
            depth -= 1
            if depth == 0: return i
        i += 1
    raise SliceError('unbalanced parens')

CAST_RE = re.compile(r'\b(static_cast|reinterpret_cast|const_cast)\s*<')

def rewrite_casts(body, fired):
    """R-cast: xxx_cast<T>(e) -> ((T)(e)); handles nesting by repeated leftmost-innermost rewriting."""
    while True:
        m = None
        for m_ in CAST_RE.finditer(body):
            m = m_  # take the last one (innermost/rightmost first avoids offset problems)
        if m is None: break
        lt = m.end() - 1
        # find matching '>' (template args may nest <>)
        depth = 0; i = lt
        while True:
            if body[i] == '<': depth += 1
            elif body[i] == '>':
                depth -= 1
                if depth == 0: break
            i += 1
        ty = body[lt+1:i].strip()
        j = i + 1
        while body[j].isspace(): j += 1
        if body[j] != '(':
            raise SliceError('cast without parenthesis')
        k = match_paren(body, j)
        expr = body[j+1:k]
        body = body[:m.start()] + '((' + ty + ')(' + expr + '))' + body[k+1:]
        fired['R-cast'] = fired.get('R-cast', 0) + 1
    return body

LOOP_RE = re.compile(r'\b(for|while)\s*\(')

def loop_heads(body):
    """[(index of closing paren of the header, normalised header text)] for every for/while loop of the body, in textual order."""
    heads = []
    for m in LOOP_RE.finditer(body):
        p = m.end() - 1
        q = match_paren(body, p)
        # trailing 'while (...) ;' of a do-loop
        r = q + 1
        while r < len(body) and body[r].isspace(): r += 1
        if m.group(1) == 'while' and r < len(body) and body[r] == ';':
            continue
        heads.append((q, re.sub(r'\s+', ' ', body[m.start():q + 1]).strip()))
    return heads

_FROZEN_HEADS = None
def frozen_heads():
    global _FROZEN_HEADS
    if _FROZEN_HEADS is None:
        import json
        p = os.path.join(os.path.dirname(os.path.dirname(os.path.abspath(__file__))), 'spec', 'loop_headers.json')
        _FROZEN_HEADS = json.load(open(p)) if os.path.exists(p) else {}
    return _FROZEN_HEADS

def insert_loop_contracts(body, loops, fired, name):
    """R-loop.  A loop contract is written for the k-th loop of the function AS IT WAS WHEN THE CONTRACT WAS WRITTEN; spec/loop_headers.json freezes
    the header text of that loop.  The contract is attached to the loop that still has this header (same rank among equal headers), wherever it
    now sits; if no loop has it, the function changed shape and the slice is refused (exit 2) rather than attaching an invariant to another loop."""
    if not loops: return body
    heads = loop_heads(body)
    frozen = frozen_heads().get(name)
    target = {}
    for o in sorted(loops):
        if frozen is None or str(o) not in frozen:
            if o >= len(heads): raise SliceError('%s: loop ordinal %d not found (function has %d loops)' % (name, o, len(heads)))
            target[o] = o; continue
        want = frozen[str(o)]
        if len(heads) == len(frozen) and o < len(heads) and heads[o][1] == want:
            target[o] = o; continue          # nothing moved: same header at the same position
        def loopvar(h):
            mm = re.match(r'for \((?:[\w\s\*]+?[\s\*])?(\w+)\s*=', h) or re.match(r'while \(\s*!?\s*\(?\s*(\w+)', h)
            return mm.group(1) if mm else None
        if len(heads) == len(frozen) and o < len(heads) and loopvar(heads[o][1]) is not None and loopvar(heads[o][1]) == loopvar(want):
            # same number of loops as when the contract was written and the same loop variable at this position: the header was edited in place (e.g. a
            # changed bound or comparison) -- the contract stays with the loop, and a wrong bound then fails the contract instead of hiding behind a slicer error
            target[o] = o; fired['R-loop.by_position'] = fired.get('R-loop.by_position', 0) + 1; continue
        rank = sum(1 for k in range(o) if frozen.get(str(k)) == want) if all(str(k) in frozen for k in range(o)) else 0
        same = [i for i, (_, h) in enumerate(heads) if h == want]
        if len(same) <= rank:
            # the loop is gone (rewritten in another shape): the function is still sliced, WITHOUT this loop contract; jobs that enforce its function
            # contract through loop contracts are undecided (they need a new invariant), lemma harnesses that unwind still decide what they can
            fired['R-loop.dropped'] = fired.get('R-loop.dropped', 0) + 1; continue
        target[o] = same[rank]
    seen_t = {}
    for o in sorted(target):
        if target[o] in seen_t:   # two contracts claim one loop: keep the first, the other one is dropped (its job becomes undecided)
            del target[o]; fired['R-loop.dropped'] = fired.get('R-loop.dropped', 0) + 1
        else: seen_t[target[o]] = o
    out = []; last = 0
    for o in sorted(target, key=lambda k: target[k]):
        q = heads[target[o]][0]
        out.append(body[last:q+1]); out.append('\n' + loops[o] + '\n'); last = q + 1
        fired['R-loop'] = fired.get('R-loop', 0) + 1
    out.append(body[last:])
    return ''.join(out)

LEFTOVER = [
    (r'\bstd::', 'std:: left in slice'),
    (r'\b\w+_cast\s*<', 'C++ cast left'),
    (r'\btemplate\b', 'template left'),
    (r'\bthis\b', '`this` left'),
    (r'\bnullptr\b', 'nullptr left'),
    (r'\bauto\b', 'auto left'),
    (r'::', 'scope operator left'),
    (r'\bnew\b|\bdelete\b', 'new/delete left'),
]

def slice_function(root, spec):
    path = os.path.join(root, spec['file'])
    if not os.path.exists(path):
        raise SliceError('missing file ' + spec['file'])
    raw = open(path).read()
    text = strip_comments(raw)
    if spec.get('region'):
        # statement-range slice: the text captured by group 1 of the regex (must match exactly once) becomes the body of the emitted
        # function; used for loop bodies of range-for loops over std::map that cannot be sliced as a whole function.
        ms = list(re.finditer(spec['region'], text, re.S))
        if len(ms) != 1:
            raise SliceError('%s: region matched %d times in %s' % (spec['name'], len(ms), spec['file']))
        m = ms[0]
        body = '{\n' + m.group(1) + '\n' + spec.get('region_tail', '') + '\n}'
    else:
        ms = list(re.finditer(spec['anchor'], text, re.S))
        if len(ms) != 1:
            raise SliceError('%s: anchor matched %d times in %s' % (spec['name'], len(ms), spec['file']))
        m = ms[0]
        b0 = text.find('{', m.end() - 1 if text[m.end()-1] == '{' else m.end())
        if b0 < 0: raise SliceError('no body')
        between = text[m.end():b0]
        if spec.get('allow_between') is None and between.strip() not in ('', 'const', 'override', 'const override'):
            raise SliceError('%s: unexpected text between anchor and body: %r' % (spec['name'], between.strip()[:60]))
        b1 = match_brace(text, b0)
        body = text[b0:b1+1]
    line = text.count('\n', 0, m.start()) + 1
    fired = {}
    # R-dcheck
    def dcheck(mm):
        fired['R-dcheck'] = fired.get('R-dcheck', 0) + 1
        if spec.get('drop_dcheck', True): return ''
        macro, args = mm.group(1), mm.group(2)
        if macro == 'DRACO_DCHECK_NOTNULL': return '__CPROVER_assert((%s) != NULL, "dcheck");' % args
        ops = {'DRACO_DCHECK': None, 'DRACO_DCHECK_EQ': '==', 'DRACO_DCHECK_NE': '!=', 'DRACO_DCHECK_GE': '>=', 'DRACO_DCHECK_GT': '>', 'DRACO_DCHECK_LE': '<=', 'DRACO_DCHECK_LT': '<'}
        op = ops[macro]
        if op is None: cond = args
        else:
            a, b = split_top_level(args)
            cond = '(%s) %s (%s)' % (a, op, b)
        return '__CPROVER_assert(%s, "dcheck");' % cond
    # (balanced-parenthesis scan: arguments may nest arbitrarily)
    out = []; pos = 0
    for mm in re.finditer(r'\b(DRACO_DCHECK(?:_[A-Z]{2}|_NOTNULL)?)\s*\(', body):
        if mm.start() < pos: continue
        close = match_paren(body, mm.end() - 1)
        end = close + 1
        while end < len(body) and body[end] in ' \t': end += 1
        if end < len(body) and body[end] == ';': end += 1
        class _M:  # adapter for dcheck()
            def __init__(s_, a, b): s_.a = a; s_.b = b
            def group(s_, k): return s_.a if k == 1 else s_.b
        out.append(body[pos:mm.start()]); out.append(dcheck(_M(mm.group(1), body[mm.end():close]))); pos = end
    out.append(body[pos:]); body = ''.join(out)
    # static_assert dropped (R-trait)
    body, k = re.subn(r'\bstatic_assert\s*\((?:[^()]|\((?:[^()]|\([^()]*\))*\))*\)\s*;', '', body)
    if k: fired['R-trait.static_assert'] = k
    # per-function listed rewrites first (they see the original text)
    for item in spec.get('subst', []):
        pat, rep, mn = item[0], item[1], item[2]
        body, k = re.subn(pat, rep, body, count=(item[3] if len(item) > 3 else 0), flags=re.S)
        # A listed rewrite that does not fire is an error only where the rewrite carries meaning of its own (prophecy assumption, induction
        # twin, or a spec marked strict).  Pure translations (member call -> C call, container access -> stub) that find nothing to translate
        # are harmless: if the construct is still there in another shape the C front end rejects the slice (exit 2), and if the code simply
        # no longer contains it (e.g. a deleted guard) the slice must still be produced so that the contract can FAIL on it.
        if k < mn and (spec.get('strict') or 'PROPHECY(' in rep or 'RECURSE(' in rep):
            raise SliceError('%s: required rewrite %r fired %d < %d times' % (spec['name'], pat, k, mn))
        if k < mn: fired['unfired:' + pat] = mn - k
        fired['subst:' + pat] = k
    # R-tmpl
    for tp, ty in spec.get('tparams', {}).items():
        body, k = re.subn(r'\b%s\b' % re.escape(tp), ty, body)
        fired['R-tmpl:' + tp] = k
    body = re.sub(r'\btypename\s+', '', body)
    # R-trait: type traits on concrete types (after R-tmpl has bound the template parameters), evaluated by the slicer
    UNS = {'int8_t': 'uint8_t', 'int16_t': 'uint16_t', 'int32_t': 'uint32_t', 'int64_t': 'uint64_t', 'int': 'unsigned int', 'long': 'unsigned long', 'char': 'unsigned char', 'short': 'unsigned short',
           'uint8_t': 'uint8_t', 'uint16_t': 'uint16_t', 'uint32_t': 'uint32_t', 'uint64_t': 'uint64_t'}
    SGN = {'uint8_t': 'int8_t', 'uint16_t': 'int16_t', 'uint32_t': 'int32_t', 'uint64_t': 'int64_t', 'unsigned': 'int', 'int8_t': 'int8_t', 'int16_t': 'int16_t', 'int32_t': 'int32_t', 'int64_t': 'int64_t'}
    def tr(table, label):
        def f(mm):
            t = mm.group(1)
            if t not in table: raise SliceError('%s: %s<%s> not in the trait table' % (spec['name'], label, t))
            fired['R-trait.' + label] = fired.get('R-trait.' + label, 0) + 1
            return table[t]
        return f
    body = re.sub(r'std::make_unsigned<\s*([\w ]+?)\s*>::type', tr(UNS, 'make_unsigned'), body)
    body = re.sub(r'std::make_signed<\s*([\w ]+?)\s*>::type', tr(SGN, 'make_signed'), body)
    ISU = {t: ('1' if t.startswith('u') else '0') for t in list(UNS) + ['float', 'double']}
    ISI = {t: ('0' if t in ('float', 'double') else '1') for t in list(UNS) + ['float', 'double']}
    body = re.sub(r'std::is_unsigned<\s*([\w ]+?)\s*>::value', tr(ISU, 'is_unsigned'), body)
    body = re.sub(r'std::is_signed<\s*([\w ]+?)\s*>::value', tr({k: ('0' if v == '1' else '1') for k, v in ISU.items()}, 'is_signed'), body)
    body = re.sub(r'std::is_integral<\s*([\w ]+?)\s*>::value', tr(ISI, 'is_integral'), body)
    body = re.sub(r'std::is_floating_point<\s*([\w ]+?)\s*>::value', tr({k: ('0' if v == '1' else '1') for k, v in ISI.items()}, 'is_floating_point'), body)
    # R-trait: std::numeric_limits<T>::f() -> <limits.h>/<float.h> constants (evaluated by the slicer, checked by co-simulation)
    NL = {('float', 'max'): 'FLT_MAX', ('float', 'min'): 'FLT_MIN', ('float', 'lowest'): '(-FLT_MAX)', ('float', 'epsilon'): 'FLT_EPSILON',
          ('double', 'max'): 'DBL_MAX', ('double', 'min'): 'DBL_MIN', ('double', 'lowest'): '(-DBL_MAX)', ('double', 'epsilon'): 'DBL_EPSILON',
          ('int32_t', 'max'): 'INT32_MAX', ('int32_t', 'min'): 'INT32_MIN', ('int32_t', 'lowest'): 'INT32_MIN', ('int', 'max'): 'INT_MAX', ('int', 'min'): 'INT_MIN',
          ('uint32_t', 'max'): 'UINT32_MAX', ('uint32_t', 'min'): '0u', ('int64_t', 'max'): 'INT64_MAX', ('int64_t', 'min'): 'INT64_MIN', ('uint64_t', 'max'): 'UINT64_MAX',
          ('uint8_t', 'max'): '255', ('uint16_t', 'max'): '65535', ('int8_t', 'max'): '127', ('int16_t', 'max'): '32767', ('int8_t', 'min'): '(-128)', ('int16_t', 'min'): '(-32768)'}
    def nl(mm):
        key = (mm.group(1), mm.group(2))
        if key not in NL: raise SliceError('%s: std::numeric_limits<%s>::%s() not in the trait table' % (spec['name'], key[0], key[1]))
        fired['R-trait.numeric_limits'] = fired.get('R-trait.numeric_limits', 0) + 1
        return NL[key]
    body = re.sub(r'std::numeric_limits<\s*(\w+)\s*>::(\w+)\(\)', nl, body)
    # R-std: overloaded / templated std:: helpers -> type-generic C macros of verif.h (applied after the per-function rewrites, so a listed
    # rewrite still wins).  std::abs dispatches on the argument type exactly as the C11 _Generic selection in STD_ABS does.
    for cxx, c in (('std::abs', 'STD_ABS'), ('std::min', 'STD_MIN'), ('std::max', 'STD_MAX'), ('std::swap', 'STD_SWAP'), ('std::floor', 'floor'), ('std::ceil', 'ceil'),
                   ('std::sqrt', 'sqrt'), ('std::memcpy', 'memcpy'), ('std::memset', 'memset'), ('std::isnan', 'isnan'), ('std::isinf', 'isinf'), ('std::fill_n', 'STD_FILL_N'), ('std::fill', 'STD_FILL')):
        body, k = re.subn(r'\b%s\s*(?:<[^<>()]*>)?\s*\(' % re.escape(cxx), c + '(', body)
        if k: fired['R-std:' + cxx] = k
    # R-cast
    body = rewrite_casts(body, fired)
    # R-kw
    body, k = re.subn(r'\bnullptr\b', 'NULL', body); fired['R-kw.nullptr'] = k
    body, k = re.subn(r'\bconstexpr\s+', 'const ', body); fired['R-kw.constexpr'] = k
    # R-self
    for mem in spec.get('members', []):
        body, k = re.subn(r'(?<![\w>.])(?:this->)?%s\b' % re.escape(mem), 'self->' + mem, body)
        fired['R-self:' + mem] = k
    # R-sibling: an unqualified call of another member function of the same class that is itself sliced in this unit (names `<Class>_<method>`)
    # becomes a call of that slice on the same object.  Listed rewrites have already run, so this only picks up calls they do not know (e.g. a
    # refactoring that starts using AvailBits() inside GetBits()).
    sib = spec.get('_siblings') or {}
    for meth, cname in sib.items():
        if not re.search(r'\bself\b', spec['sig']): break
        body, k1 = re.subn(r'(?<![\w>.:&])%s\(\s*\)' % re.escape(meth), '%s(self)' % cname, body)
        body, k2 = re.subn(r'(?<![\w>.:&])%s\(' % re.escape(meth), '%s(self, ' % cname, body)
        if k1 + k2: fired['R-sibling:' + meth] = k1 + k2
    # R-loop
    spec['_heads'] = [h for _, h in loop_heads(body)]
    body = insert_loop_contracts(body, spec.get('loops', {}), fired, spec['name'])
    for pat, msg in LEFTOVER:
        mm = re.search(pat, body)
        if mm:
            ctx = body[max(0, mm.start()-30):mm.end()+30].replace('\n', ' ')
            raise SliceError('%s: %s near: %s' % (spec['name'], msg, ctx))
    header = '/* slice of %s:%d  rules: %s */\n' % (spec['file'], line, ', '.join('%s x%d' % kv for kv in sorted(fired.items()) if kv[1] and not kv[0].startswith('unfired:')))
    return header + spec['sig'] + '\n' + body + '\n', {'name': spec['name'], 'file': spec['file'], 'line': line, 'rules': {k: v for k, v in fired.items() if v}}

def split_top_level(args):
    depth = 0
    for i, c in enumerate(args):
        if c in '([': depth += 1
        elif c in ')]': depth -= 1
        elif c == ',' and depth == 0:
            return args[:i].strip(), args[i+1:].strip()
    raise SliceError('cannot split macro args: ' + args)

def slice_struct(root, spec):
    path = os.path.join(root, spec['file'])
    text = strip_comments(open(path).read())
    lines = []
    for decl, pat in spec['fields']:
        if len(re.findall(pat, text)) < 1:
            raise SliceError('struct %s: member declaration %r not found in %s' % (spec['struct'], pat, spec['file']))
        lines.append('  ' + decl + ';')
    return 'struct %s {\n%s\n};\n' % (spec['struct'], '\n'.join(lines))

def slice_constant(root, spec):
    """{'const': NAME, 'file':..., 'regex': r'#define NAME (\\S+)' | ..., 'ctype': 'int'} -> #define NAME (value) copied from source"""
    text = strip_comments(open(os.path.join(root, spec['file'])).read())
    ms = re.findall(spec['regex'], text)
    if len(ms) != spec.get('count', 1) or len(set(ms)) != 1:
        raise SliceError('constant %s: regex matched %d times (%d distinct)' % (spec['const'], len(ms), len(set(ms))))
    val = ms[0].strip()
    val = re.sub(r'\bstatic_cast<(\w+)>\(', r'(\1)(', val)
    if spec.get('resolve_alias'):
        # a captured type name that is a typedef / using alias declared in the same file is replaced by the aliased type (one or two levels)
        for _ in range(2):
            am = re.search(r'\btypedef\s+([\w ]+?)\s+%s\s*;' % re.escape(val), text) or re.search(r'\busing\s+%s\s*=\s*([\w ]+?)\s*;' % re.escape(val), text)
            if not am: break
            val = am.group(1).strip()
    if spec.get('expr'): val = spec['expr'].format(val)   # e.g. the enumerator that follows a captured one: '({}) + 1'
    if spec.get('noparen'): return '#define %s %s\n' % (spec['const'], val)
    return '#define %s (%s)\n' % (spec['const'], val)

def slice_raw(root, spec):
    """{'raw': label, 'file':..., 'regex': ...} -> the matched text copied verbatim (comment-stripped), must match exactly once.
    Optional 'subst': [(pat, rep, min)] applied to the copied text."""
    text = strip_comments(open(os.path.join(root, spec['file'])).read())
    ms = list(re.finditer(spec['regex'], text, re.S))
    if len(ms) != 1:
        raise SliceError('raw block %s: regex matched %d times' % (spec['raw'], len(ms)))
    t = ms[0].group(1) if ms[0].groups() else ms[0].group(0)
    for pat, rep, mn in spec.get('subst', []):
        t, k = re.subn(pat, rep, t, flags=re.S)
        if k < mn: raise SliceError('raw block %s: rewrite %r fired %d < %d' % (spec['raw'], pat, k, mn))
    return '/* raw block %s copied from %s */\n%s\n' % (spec['raw'], spec['file'], t)

def generate(root, unit):
    """unit: dict with 'name', 'structs', 'consts', 'functions'.
    Returns (types_text, funcs_text, records): types (constants + structs) go before the contracts,
    function definitions after them."""
    head = '/* GENERATED by /verif/engine/slicer.py from the working tree of %s -- do not edit */\n' % root
    tparts = [head]
    recs = []
    for c in unit.get('consts', []):
        tparts.append(slice_constant(root, c))
    for r in unit.get('raw', []):
        tparts.append(slice_raw(root, r))
    # R-alias: `typedef T A;` / `using A = T;` with T a fixed-width arithmetic type, declared in a file a slice is taken from, are copied as C typedefs
    # (so that a refactoring that names a type keeps slicing); aliases of anything else are left alone
    BUILTIN = r'(?:u?int(?:8|16|32|64)_t|size_t|float|double|bool|char|int|unsigned|unsigned int|long|unsigned long)'
    seen_alias = {}
    for fpath in sorted({f['file'] for f in unit['functions']} | {st['file'] for st in unit.get('structs', [])}):
        full = os.path.join(root, fpath)
        if not os.path.exists(full): continue
        ftext = strip_comments(open(full).read())
        for am in list(re.finditer(r'\btypedef\s+(%s)\s+(\w+)\s*;' % BUILTIN, ftext)) + [None]:
            if am is None: break
            seen_alias.setdefault(am.group(2), am.group(1))
        for am in re.finditer(r'\busing\s+(\w+)\s*=\s*(%s)\s*;' % BUILTIN, ftext):
            seen_alias.setdefault(am.group(1), am.group(2))
    for a_name, a_type in sorted(seen_alias.items()):
        if a_name in unit.get('no_alias', []) or re.match(BUILTIN + '$', a_name): continue
        tparts.append('#ifndef ALIAS_%s\n#define ALIAS_%s\ntypedef %s %s;  /* R-alias */\n#endif\n' % (a_name, a_name, a_type, a_name))
    for pre in unit.get('pre_struct_text', []):
        tparts.append(pre + '\n')
    for s in unit.get('structs', []):
        tparts.append(slice_struct(root, s))
    for pre in unit.get('pre_text', []):
        tparts.append(pre + '\n')
    fparts = [head]
    for f in unit['functions']:
        fparts.append(f['sig'] + ';\n')
    errors = []
    names = [f['name'] for f in unit['functions']]
    for f in unit['functions']:
        cls = f['name'].split('_', 1)[0] if '_' in f['name'] else None
        f['_siblings'] = {n[len(cls) + 1:]: n for n in names if cls and n.startswith(cls + '_') and n != f['name'] and re.match(r'^[A-Za-z]\w*$', n[len(cls) + 1:]) and not re.search(r'_(u|i)\d+$|_f32$', n)} if cls else {}
        if f['name'] in unit.get('exclude', ()):
            msg = unit['exclude'][f['name']]
            errors.append(msg); recs.append({'name': f['name'], 'file': f['file'], 'line': 0, 'rules': {}, 'error': msg})
            fparts.append('/* NOT SLICED: %s */\n' % msg.replace('*/', '* /')); continue
        try:
            t, r = slice_function(root, f)
        except SliceError as e:
            # one function that left the sliceable subset does not take the unit down: it stays a prototype without body (every job that needs it
            # becomes inconclusive through the "calls a function outside the slice" rule) and the other functions are still checked
            errors.append(str(e)); recs.append({'name': f['name'], 'file': f['file'], 'line': 0, 'rules': {}, 'error': str(e)})
            fparts.append('/* NOT SLICED: %s */\n' % str(e).replace('*/', '* /')); continue
        fparts.append(t); recs.append(r)
    if errors and len(errors) == len(unit['functions']): raise SliceError('; '.join(errors)[:600])
    return ''.join(tparts), ''.join(fparts), recs
