#!/usr/bin/env python3
"""Supporting static fact for C05 (not a deductive obligation, reported separately): the table of bitstream-version gates in the decoder
sources.  Every comparison `<expr> <op> DRACO_BITSTREAM_VERSION(a, b)` is keyed by (file, enclosing function, ordinal within the function) and
must still be present with the same operator and version as in spec/version_gates.json (frozen from the pinned tree).  New gates may be added
(a new bitstream version needs them); a removed or altered gate changes how existing streams are read."""
import os, re, json, sys
sys.path.insert(0, os.path.dirname(os.path.dirname(os.path.abspath(__file__))))
from engine.slicer import strip_comments
VERIF = os.path.dirname(os.path.dirname(os.path.abspath(__file__)))
GATE = re.compile(r'(<=|>=|==|!=|<|>)\s*DRACO_BITSTREAM_VERSION\(\s*(\d+)\s*,\s*(\d+)\s*\)')
FUNC = re.compile(r'^[A-Za-z_][\w:<>,\s\*&~]*?\b([A-Za-z_][\w:<>]*)\s*\([^;{}]*\)\s*(?:const\s*)?(?:override\s*)?\{', re.M)

def scan(repo):
    out = {}
    root = os.path.join(repo, 'src', 'draco')
    for d, _, fs in os.walk(root):
        for f in sorted(fs):
            if not (f.endswith('.cc') or f.endswith('.h')) or f.endswith('_test.cc'): continue
            if 'encoder' in f and 'decoder' not in f: continue
            path = os.path.join(d, f); rel = os.path.relpath(path, repo)
            text = strip_comments(open(path, errors='replace').read())
            if 'DRACO_BITSTREAM_VERSION(' not in text: continue
            funcs = [(m.start(), m.group(1)) for m in FUNC.finditer(text)]
            counts = {}
            for m in GATE.finditer(text):
                fn = '?'
                for pos, name in funcs:
                    if pos < m.start(): fn = name
                    else: break
                k = counts.get(fn, 0); counts[fn] = k + 1
                out['%s::%s#%d' % (rel, fn, k)] = '%s %s.%s' % (m.group(1), m.group(2), m.group(3))
    return out

def check(repo):
    frozen = json.load(open(os.path.join(VERIF, 'spec', 'version_gates.json')))
    cur = scan(repo)
    changed = []
    # compare per (file, function): the multiset and ORDER of gates inside a function must contain the frozen sequence as a subsequence
    def by_fn(t):
        d = {}
        for k in sorted(t, key=lambda x: (x.rsplit('#', 1)[0], int(x.rsplit('#', 1)[1]))):
            d.setdefault(k.rsplit('#', 1)[0], []).append(t[k])
        return d
    fz, cu = by_fn(frozen), by_fn(cur)
    moved = []
    def contains(have, seq):
        it = iter(have)
        return all(any(x == y for y in it) for x in seq)
    from collections import Counter
    def per_file(t):
        d = {}
        for k, v in t.items(): d.setdefault(k.split('::', 1)[0], Counter())[v] += 1
        return d
    ff, cf = per_file(frozen), per_file(cur)
    for fn, seq in fz.items():
        if fn in cu:
            if not contains(cu[fn], seq):
                # the function no longer carries its frozen gates in order; if the FILE still has every frozen gate (as a multiset) the gate was
                # moved into a helper by a refactoring: not a change of what is read; otherwise a gate was removed or altered
                f = fn.split('::', 1)[0]
                if all(cf.get(f, Counter())[g] >= n for g, n in ff[f].items()): continue
                changed.append({'function': fn, 'frozen': seq, 'current': cu[fn]})
        else:
            # function renamed/moved: fine if some function of the same file carries the sequence; otherwise undecided (never a violation)
            f = fn.split('::', 1)[0]
            if not any(k.split('::', 1)[0] == f and contains(v, seq) for k, v in cu.items()): moved.append({'function': fn, 'frozen': seq})
    return {'gates_frozen': len(frozen), 'gates_current': len(cur), 'changed': changed, 'not_found': moved}

if __name__ == '__main__':
    if sys.argv[1] == 'freeze':
        json.dump(scan(sys.argv[2]), open(os.path.join(VERIF, 'spec', 'version_gates.json'), 'w'), indent=1, sort_keys=True); print('frozen')
    else:
        print(json.dumps(check(sys.argv[2]), indent=1))
