#!/usr/bin/env python3
"""Native side: (a) co-simulation of the sliced C text against the real C++ functions compiled by g++ from the
working tree; (b) replay of a verifier counterexample through the same harness text, linked against the real code."""
import os, re, subprocess, json, shutil

VERIF = os.path.dirname(os.path.dirname(os.path.abspath(__file__)))

def sh(cmd, cwd=None, timeout=600):
    try:
        p = subprocess.run(cmd, cwd=cwd, stdout=subprocess.PIPE, stderr=subprocess.STDOUT, timeout=timeout)
        return p.returncode, p.stdout.decode(errors='replace')
    except subprocess.TimeoutExpired as e:
        return -9, (e.stdout or b'').decode(errors='replace') + '\nTIMEOUT'

def cxxflags(repo):
    return ['-std=c++11', '-O1', '-w', '-Dprivate=public', '-Dprotected=public', '-I', os.path.join(repo, 'src'),
            '-I', os.path.join(VERIF, 'native', 'include'), '-I', os.path.join(VERIF, 'contracts'), '-I', os.path.join(VERIF, 'stubs')]

def build_real(name, mod, gendir, outdir, repo, defs=None):
    """Compile shims + the draco .cc files the unit needs, from the working tree. Returns (ok, objs or message)."""
    os.makedirs(outdir, exist_ok=True)
    objs = []
    import importlib
    srcs = []
    for u in [name] + list(getattr(mod, 'DEPS', [])):
        m = mod if u == name else importlib.import_module('units.' + u)
        srcs.append(os.path.join(VERIF, 'native', 'shims_%s.cc' % u))
        srcs += [os.path.join(repo, s) for s in getattr(m, 'NATIVE_SOURCES', [])]
    for i, s in enumerate(srcs):
        o = os.path.join(outdir, 'real_%d.o' % i)
        rc, out = sh(['g++'] + cxxflags(repo) + list(defs if defs is not None else getattr(mod, 'NATIVE_DEFS', [])) + ['-I', gendir, '-c', s, '-o', o])
        if rc != 0: return False, 'g++ failed on %s: %s' % (s, out[-1500:])
        objs.append(o)
    return True, objs

def cosim(name, mod, gendir, build, repo, seed, iters):
    """Slice text compiled by gcc vs the real functions compiled by g++, same inputs, outputs compared."""
    out = os.path.join(build, 'native_' + name)
    ok, objs = build_real(name, mod, gendir, out, repo)
    if not ok: return {'status': 'error', 'reason': objs}
    # slice object with renamed symbols
    wrap = os.path.join(out, 'slice_wrap.c')
    open(wrap, 'w').write('#include "verif.h"\n#include "vec.h"\n' + getattr(mod, 'NATIVE_TYPES_PRE', '') + '%s%s#include "%s_types.h"\n%s#define RECURSE(f) f\n#include "%s_slice.c"\n' % (
        ''.join('#include "%s"\n' % h for h in getattr(mod, 'TYPES_PRELUDE', [])), getattr(mod, 'NATIVE_SLICE_PRE', ''), name, ''.join('#include "%s_protos.h"\n' % d for d in getattr(mod, 'DEPS', [])) + ''.join('#include "%s"\n' % h for h in getattr(mod, 'SLICE_PRELUDE', [])), name))
    so = os.path.join(out, 'slice.o')
    defs = [d for d in getattr(mod, 'DEFS', [])] + list(getattr(mod, 'NATIVE_DEFS', []))
    rc, o = sh(['gcc', '-std=gnu11', '-O1', '-w', '-DVERIF_NATIVE_SLICE', '-I', gendir, '-I', os.path.join(VERIF, 'contracts'), '-I', os.path.join(VERIF, 'stubs')] + defs + ['-c', wrap, '-o', so])
    if rc != 0: return {'status': 'error', 'reason': 'gcc failed on slice: ' + o[-1500:]}
    syms = os.path.join(out, 'syms.txt')
    names = [f['name'] for f in mod.UNIT['functions']]
    open(syms, 'w').write(''.join('%s slice_%s\n' % (n, n) for n in names))
    rc, o = sh(['objcopy', '--redefine-syms=' + syms, so])
    if rc != 0: return {'status': 'error', 'reason': 'objcopy: ' + o[-500:]}
    drv = os.path.join(VERIF, 'native', 'cosim_%s.c' % name)
    do = os.path.join(out, 'cosim.o')
    rc, o = sh(['gcc', '-std=gnu11', '-O1', '-w', '-I', gendir, '-I', os.path.join(VERIF, 'contracts'), '-I', os.path.join(VERIF, 'stubs'), '-I', os.path.join(VERIF, 'native')] + defs + ['-c', drv, '-o', do])
    if rc != 0: return {'status': 'error', 'reason': 'gcc failed on cosim driver: ' + o[-1500:]}
    exe = os.path.join(out, 'cosim')
    rc, o = sh(['g++', do, so] + objs + ['-o', exe])
    if rc != 0: return {'status': 'error', 'reason': 'link: ' + o[-1500:]}
    rc, o = sh([exe, str(seed), str(iters)], timeout=600)
    m = re.search(r'COSIM functions=(\d+) vectors=(\d+) mismatches=(\d+)', o)
    if rc != 0 or not m or int(m.group(3)) != 0:
        return {'status': 'mismatch', 'reason': 'sliced text and real code disagree (or driver failed, rc=%d): %s' % (rc, o[-800:])}
    return {'status': 'ok', 'reason': '', 'functions': int(m.group(1)), 'vectors': int(m.group(2)), 'mismatches': 0,
            'covered': re.findall(r'^  ok (\S+)', o, re.M)}

def trace_args(inputs):
    args = []
    for name, v in (inputs or {}).items():
        if not re.match(r'^[A-Za-z_]\w*$', name): continue
        if v.get('binary'):
            args.append('%s=b%s' % (name, v['binary']))
        elif v.get('raw'):
            try:
                raw = json.loads(v['raw'])
            except Exception:
                continue
            for e in raw.get('elements', []):
                b = e.get('value', {}).get('binary')
                if b is not None: args.append('%s[%d]=b%s' % (name, e['index'], b))
    return args

def replay(job, obligation, gendir, build, repo):
    unit = job['id'].split('.')[0]
    import importlib
    mod = importlib.import_module('units.' + unit)
    # the real code is compiled with the SAME -D set as the harness (e.g. -DRANS_P=20 selects RAnsEncoder<20> in the shims)
    defs = [d for d in job.get('defines', getattr(mod, 'DEFS', []))] + [d for d in getattr(mod, 'NATIVE_DEFS', []) if not any(d.split('=')[0] == x.split('=')[0] for x in job.get('defines', []))]
    out = os.path.join(build, 'native_' + unit + '_' + re.sub(r'[^A-Za-z0-9]', '', ''.join(sorted(defs)))[-60:])
    ok, objs = build_real(unit, mod, gendir, out, repo, defs)
    if not ok: return {'status': 'error', 'detail': objs}
    ho = os.path.join(out, 'harness_%s.o' % job['entry'])
    rc, o = sh(['gcc', '-std=gnu11', '-O1', '-w', '-ffunction-sections', '-DHARNESS=' + job['entry'], '-I', gendir, '-I', os.path.join(VERIF, 'contracts'), '-I', os.path.join(VERIF, 'stubs')] + defs +
               ['-c', os.path.join(VERIF, job['src']), '-o', ho])
    if rc != 0: return {'status': 'error', 'detail': 'gcc harness: ' + o[-1500:]}
    mo = os.path.join(out, 'replay_main_%s.o' % job['entry'])
    rc, o = sh(['gcc', '-std=gnu11', '-w', '-DHARNESS=' + job['entry'], '-c', os.path.join(VERIF, 'native', 'replay_main.c'), '-o', mo])
    if rc != 0: return {'status': 'error', 'detail': 'gcc main: ' + o[-800:]}
    exe = os.path.join(out, 'replay_' + job['entry'])
    rc, o = sh(['g++', '-Wl,--gc-sections', mo, ho] + objs + ['-o', exe])
    if rc != 0: return {'status': 'error', 'detail': 'link: ' + o[-1500:]}
    args = trace_args(obligation.get('trace'))
    rc, o = sh([exe] + args, timeout=120)
    fails = re.findall(r'REPLAY-FAIL (.*)', o)
    res = {'cmd': ' '.join([exe] + args), 'exit': rc, 'output': o[-3000:], 'failed_assertions': fails}
    if 'REPLAY-ASSUME-FALSE' in o: res['status'] = 'not-reproduced'; res['detail'] = 'trace inputs violate a harness assumption natively'
    elif fails: res['status'] = 'reproduced'
    elif rc not in (0,): res['status'] = 'reproduced' if rc < 0 or rc > 3 else 'not-reproduced'; res['detail'] = 'native run ended with exit %d' % rc
    else: res['status'] = 'not-reproduced'
    return res


def build_lib(repo, outdir):
    """Compile the whole draco library (no tests/tools/plugins) from the working tree into a static archive; used only to replay a
    violation through the public API. Returns (ok, path or message)."""
    import glob, concurrent.futures
    os.makedirs(outdir, exist_ok=True)
    lib = os.path.join(outdir, 'libdraco_replay.a')
    srcs = []
    for f in glob.glob(os.path.join(repo, 'src', 'draco', '**', '*.cc'), recursive=True):
        rel = os.path.relpath(f, os.path.join(repo, 'src', 'draco'))
        top = rel.split(os.sep)[0]
        if f.endswith('_test.cc') or top in ('tools', 'javascript', 'unity', 'maya', 'scene', 'texture', 'material') or 'test_utils' in f or 'test_base' in f: continue
        if 'gltf' in f or 'scene_io' in f or 'texture_io' in f or 'image_compression' in f: continue
        srcs.append(f)
    flags = ['-std=c++11', '-O1', '-w', '-I', os.path.join(repo, 'src'), '-I', os.path.join(VERIF, 'native', 'include')]
    def cc(f):
        o = os.path.join(outdir, 'lib_' + re.sub(r'[^A-Za-z0-9]', '_', os.path.relpath(f, repo)) + '.o')
        rc, out = sh(['g++'] + flags + ['-c', f, '-o', o])
        return (rc, out, o, f)
    objs = []
    with concurrent.futures.ThreadPoolExecutor(max_workers=16) as ex:
        for rc, out, o, f in ex.map(cc, srcs):
            if rc != 0: return False, 'g++ failed on %s: %s' % (f, out[-800:])
            objs.append(o)
    if os.path.exists(lib): os.remove(lib)
    rc, out = sh(['ar', 'rcs', lib] + objs)
    if rc != 0: return False, 'ar: ' + out[-500:]
    return True, lib

def replay_api(job, build, repo):
    """Replay through the public API: job['native_api'] = {'src': native/<prog>.cc, 'args': [...]}: exit 0 = property holds on the real code,
    1 = violated (reproduced)."""
    spec = job['native_api']
    out = os.path.join(build, 'native_api')
    ok, lib = build_lib(repo, out)
    if not ok: return {'status': 'error', 'detail': lib}
    exe = os.path.join(out, os.path.basename(spec['src'])[:-3])
    rc, o = sh(['g++', '-std=c++11', '-O1', '-w', '-I', os.path.join(repo, 'src'), '-I', os.path.join(VERIF, 'native', 'include'), os.path.join(VERIF, spec['src']), lib, '-o', exe])
    if rc != 0: return {'status': 'error', 'detail': 'g++: ' + o[-1200:]}
    rc, o = sh([exe] + list(spec.get('args', [])), timeout=300)
    return {'status': 'reproduced' if rc == 1 else ('not-reproduced' if rc == 0 else 'error'), 'cmd': ' '.join([exe] + list(spec.get('args', []))), 'exit': rc, 'output': o[-3000:],
            'detail': 'public-API replay program %s' % spec['src']}
