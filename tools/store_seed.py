#!/usr/bin/env python3
# usage: store_seed.py <Cxx> <A|B> "<confirmation line>"  -- copies a confirmed seeded change into /verif/seeded/<Cxx>-<A|B>/
import sys, os, json, shutil
pid, n, conf = sys.argv[1], sys.argv[2], sys.argv[3]
src = os.environ.get('SEEDOUT', '/tmp/seedout') + '/%s' % pid
dst = '/verif/seeded/%s-%s' % (pid, n)
os.makedirs(dst, exist_ok=True)
shutil.copy('%s/%s.patch.diff' % (src, n), dst + '/patch.diff')
shutil.copy('%s/%s.demo.cc' % (src, n), dst + '/demo.cc')
meta_txt = open('%s/%s.meta.txt' % (src, n)).read()
files = [l[6:].strip() for l in open(dst + '/patch.diff') if l.startswith('+++ b/')]
json.dump({'property': pid, 'origin': 'independent sub-agent given only the property text and a scratch worktree',
           'files_changed': files,
           'needs_to_manifest_and_agent_notes': meta_txt,
           'confirmed_by_me': {'how': 'tools/confirm_seed.sh in a scratch worktree of /repo HEAD: patch applies, library and tests build, per-test PASSED/FAILED list identical to the unpatched tree, demo exits 0 unpatched and non-zero patched',
                               'result': conf},
           'detected_by': 'see DESIGN.md section 10 (filled in after running the checks against the patch)'},
          open(dst + '/meta.json', 'w'), indent=1)
print('stored', dst)
