#!/usr/bin/env python3
"""Collects the results of tools/eval_seed.py runs (/tmp/evalseed/<seed>/result.json) into (a) seeded/<id>/meta.json `detected_by` and (b) a markdown
table printed on stdout (pasted into DESIGN.md section 10).  usage: seed_matrix.py [resultroot=/tmp/evalseed]"""
import sys, os, json, re
VERIF = os.path.dirname(os.path.dirname(os.path.abspath(__file__)))
root = sys.argv[1] if len(sys.argv) > 1 else '/tmp/evalseed'
rows = []
for sid in sorted(os.listdir(os.path.join(VERIF, 'seeded'))):
    mp = os.path.join(VERIF, 'seeded', sid, 'meta.json')
    if not os.path.exists(mp): continue
    meta = json.load(open(mp))
    rp = os.path.join(root, sid, 'result.json')
    if not os.path.exists(rp): rows.append((sid, meta, None)); continue
    rows.append((sid, meta, json.load(open(rp))))
print('| seeded change | property | site (file) | verdict of the checks | first failed obligation / reason |')
print('|---|---|---|---|---|')
for sid, meta, res in rows:
    site = ', '.join(os.path.basename(f) for f in meta.get('files_changed', []))[:70]
    if res is None: print('| %s | %s | %s | not run | |' % (sid, meta['property'], site)); continue
    det = [p for p, v in res['properties'].items() if v['rc'] == 1]
    inc = [p for p, v in res['properties'].items() if v['rc'] == 2]
    first = ''
    for p in det:
        for l in res['properties'][p]['lines']:
            m = re.search(r'obligation=(\S+) \[([^\]]*)\]', l)
            if m: first = ('%s [%s]' % (m.group(1), m.group(2)))[:110]; break
        if first: break
    if det: verdict = 'VIOLATION reported by ' + ', '.join(det)
    elif inc:
        verdict = 'exit 2 (undecided) in ' + ', '.join(inc)
        for p in inc:
            ls = [l for l in res['properties'][p]['lines'] if l.startswith('INCONCLUSIVE')]
            if ls: first = ls[0][14:130]; break
    elif not res['changed_units']: verdict = 'not seen: the change is outside every function under contract'
    else: verdict = 'not detected: sliced, all obligations still hold (outside the claimed scope)'
    meta['detected_by'] = {'violation_reported_by': det, 'undecided_in': inc, 'units_with_changed_slice': res['changed_units'], 'first_failed_obligation': first}
    json.dump(meta, open(os.path.join(VERIF, 'seeded', sid, 'meta.json'), 'w'), indent=1)
    print('| %s | %s | %s | %s | %s |' % (sid, meta['property'], site, verdict, first.replace('|', '/')))
n = len([r for r in rows if r[2]]); d = len([r for r in rows if r[2] and any(v['rc'] == 1 for v in r[2]['properties'].values())])
print('\n%d seeded changes evaluated, %d reported as violations.' % (n, d))
