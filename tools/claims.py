"""Claims per property (text, level, technique) and reasons for properties not claimed. Edited by hand; MANIFEST.json is generated from it."""
CLAIMS = {
 'C17': {
   'category': 'proof',
   'text': 'CBMC discharges, for all inputs, the function contracts (goto-instrument --dfcc) of the bitstream primitives sliced from /repo on every run: zig-zag maps of all four widths (closed form + both inverse directions), array zig-zag (loop contracts, any length), DecoderBuffer Peek/Decode of every scalar width (bounds, value, position, frame), BitDecoder GetBit/PeekBit/GetBits/EnsureBits/AvailBits/reset (loop contracts, any buffer length), varint decoding (inductive contract over the recursion), and the varint encode->decode round trip for all values of all 8 integer types incl. truncated and exact-length buffers (recursion unwound to its width bound with unwinding assertions). Not covered: composition of per-operation lemmas over whole bit sequences (paper induction).',
   'design_ref': 'DESIGN.md section 5 (C17)',
   'note': 'Trusted: CBMC 6.11; slicer rules (guarded by native co-simulation against the real compiled functions); std::vector stub model; DecoderBuffer representation invariant as precondition.',
   'technique': 'contract-based deductive verification (CBMC function + loop contracts via goto-instrument --dfcc) on code sliced mechanically from /repo each run'},
 'C16': {
   'category': 'proof',
   'text': 'CBMC proves on the text sliced from /repo each run: wrap transform - for ALL (min,max) the transform accepts (contract of InitCorrectionBounds: accepted iff 0 <= max-min < 2^31-1, announced interval as specified), ALL originals in range and ALL 32-bit predictions, the correction lies in the announced interval and the decoder returns the original (per component; no signed overflow on either side; arbitrary corrections are UB-free); canonicalized octahedral transform - for each quantization q (quick: 8 values of q, thorough: all 2..30) and ALL pairs of canonical coordinates, corrections in [0,max_value] and decoder returns the original; contracts of ClampPredictedValue (loop contract, any component count), DecodeTransformData of both transforms, SetQuantizationBits, AddAsUnsigned.',
   'design_ref': 'DESIGN.md section 5 (C16)',
   'note': 'Trusted: CBMC; slicer (co-simulated); Point2/VectorD stand-ins in contracts/pred_helpers.h; the lemma is per component (component loop unwound for 1 component, 2 in thorough).',
   'technique': 'contract-based deductive verification (CBMC contracts + full-domain symbolic lemmas) on code sliced from /repo each run'},
}

NA = {}
