#!/bin/bash
# usage: try_patch.sh [-R] <patch> <unit> <job-regex>   -- apply patch to a scratch copy of /repo/src and run selected jobs against it
rev=""; if [ "$1" = "-R" ]; then rev="-R"; shift; fi
patch=$(readlink -f $1); unit=$2; rx=$3
rm -rf /tmp/mut && mkdir -p /tmp/mut && cp -r /repo/src /tmp/mut/src && (cd /tmp/mut && patch -p1 -s $rev < $patch) || { echo "patch failed"; exit 2; }
cd /verif && VERIF_REPO=/tmp/mut python3 check.py job $unit "$rx" --novac -v 2>&1 | grep -E "^$unit|FAILED|SLICE" | cut -c1-260 | head -${4:-12}
