#!/usr/bin/env python3
"""Developer tool: run the registered checks against a seeded change WITHOUT touching /repo.

  eval_seed.py <seed-id|patch.diff> [-R] [--props C02,C03] [--all-units] [--tier quick]

A scratch copy of /repo/src is made under /tmp/evalseed/<id>/repo, the patch is applied there (-R: reverse-applied, used for the
fix-revert patches), the slices of every unit are regenerated from it and compared with the slices of /repo: only units whose sliced
text (or whose slicing outcome) differs can give a different verdict, so only those are run (VERIF_ONLY_UNITS) -- the other jobs read
byte-identical input.  Output, evidence and replay files go to /tmp/evalseed/<id>/out (VERIF_OUT), never to /verif.
Prints one line per property: rc and the VIOLATION / INCONCLUSIVE lines; writes /tmp/evalseed/<id>/result.json.
"""
import sys, os, json, re, shutil, subprocess, importlib
VERIF = os.path.dirname(os.path.dirname(os.path.abspath(__file__)))
sys.path.insert(0, VERIF)
from engine import slicer, gates

def units():
    return sorted(f[:-3] for f in os.listdir(os.path.join(VERIF, 'units')) if f.endswith('.py') and not f.startswith('_'))

def slices(repo):
    out = {}
    for u in units():
        mod = importlib.import_module('units.' + u)
        try:
            t, f, recs = slicer.generate(repo, mod.UNIT)
            out[u] = t + f
        except slicer.SliceError as e:
            out[u] = 'SLICE-ERROR ' + str(e)
    return out

def main():
    a = sys.argv[1:]
    rev = '-R' in a; a = [x for x in a if x != '-R']
    allu = '--all-units' in a; a = [x for x in a if x != '--all-units']
    tier = 'quick'
    if '--tier' in a: i = a.index('--tier'); tier = a[i + 1]; del a[i:i + 2]
    props = None
    if '--props' in a: i = a.index('--props'); props = a[i + 1].split(','); del a[i:i + 2]
    sid = a[0]
    patch = sid if os.path.isfile(sid) else os.path.join(VERIF, 'seeded', sid, 'patch.diff')
    name = re.sub(r'[^A-Za-z0-9_.-]', '_', sid if not os.path.isfile(sid) else os.path.basename(sid)) + ('.R' if rev else '')
    root = os.path.join('/tmp/evalseed', name); shutil.rmtree(root, ignore_errors=True); os.makedirs(root)
    repo = os.path.join(root, 'repo'); os.makedirs(repo)
    subprocess.check_call(['cp', '-r', '/repo/src', repo + '/src'])
    r = subprocess.run(['patch', '-p1', '-s'] + (['-R'] if rev else []) + ['-i', os.path.abspath(patch)], cwd=repo, stdout=subprocess.PIPE, stderr=subprocess.STDOUT)
    if r.returncode != 0: print('patch failed:', r.stdout.decode()); return 2
    base = slices('/repo'); mut = slices(repo)
    changed = [u for u in units() if base[u] != mut[u]]
    # dependants: a unit that includes a changed unit's slice
    deps = {u: getattr(importlib.import_module('units.' + u), 'DEPS', []) for u in units()}
    affected = sorted(set(changed) | {u for u in units() if any(d in changed for d in deps[u])})
    g = gates.check(repo)
    manifest = json.load(open(os.path.join(VERIF, 'MANIFEST.json')))
    claimed = [c['property_id'] for c in manifest['checks']]
    run_props = []
    for p in claimed:
        if props and p not in props: continue
        has = allu
        for u in affected:
            mod = importlib.import_module('units.' + u)
            if any(p in j.get('props', []) for j in mod.JOBS): has = True
        if p == 'C05' and (g['changed'] or g['not_found']): has = True
        if has: run_props.append(p)
    print('seed %s: units with changed slice: %s; affected: %s; gate table changed: %s; properties to run: %s' % (name, changed, affected, bool(g['changed'] or g['not_found']), run_props))
    res = {'seed': name, 'changed_units': changed, 'affected_units': affected, 'properties': {}}
    for p in run_props:
        env = dict(os.environ); env['VERIF_REPO'] = repo; env['VERIF_OUT'] = os.path.join(root, 'out')
        if not allu: env['VERIF_ONLY_UNITS'] = ','.join(affected) if affected else 'none'
        pr = subprocess.run([sys.executable, os.path.join(VERIF, 'check.py'), p, '--tier', tier], env=env, stdout=subprocess.PIPE, stderr=subprocess.STDOUT)
        o = pr.stdout.decode(errors='replace')
        lines = [l for l in o.splitlines() if l.startswith(('VIOLATION', 'INCONCLUSIVE', 'KNOWN-FINDING'))]
        res['properties'][p] = {'rc': pr.returncode, 'lines': lines, 'summary': o.strip().splitlines()[-1] if o.strip() else ''}
        print('  %s rc=%d %s' % (p, pr.returncode, res['properties'][p]['summary']))
        for l in lines[:8]: print('     ' + l[:400])
    json.dump(res, open(os.path.join(root, 'result.json'), 'w'), indent=1)
    shutil.rmtree(repo, ignore_errors=True)
    det = [p for p, v in res['properties'].items() if v['rc'] == 1]
    print('RESULT %s detected_by=%s inconclusive=%s' % (name, det, [p for p, v in res['properties'].items() if v['rc'] == 2]))
    return 0

if __name__ == '__main__':
    sys.exit(main())
