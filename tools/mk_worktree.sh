#!/bin/bash
# usage: mk_worktree.sh <dir>   — scratch git worktree of /repo HEAD with googletest copied in and cmake configured
# (same options as /repo/_build). Remove with: git -C /repo worktree remove --force <dir>
set -e
d="$1"
git -C /repo worktree add --detach "$d" HEAD >/dev/null 2>&1
rmdir "$d/third_party/googletest" 2>/dev/null || true
cp -r /repo/third_party/googletest "$d/third_party/googletest"
cmake -G Ninja -S "$d" -B "$d/_build" -DCMAKE_BUILD_TYPE=RelWithDebInfo -DCMAKE_CXX_FLAGS=-Wno-error -DDRACO_TESTS=ON >/dev/null
echo "worktree ready: $d  (build: cmake --build $d/_build -j8 ; tests: cd $d/_build && ./draco_tests)"
