#!/usr/bin/env python3
"""Mutant self-test of the contract layer (developer / thorough tool; DESIGN.md A.12).

  selftest.py [regex-on-mutant-name] [-j N]

Each entry of tools/selftest_mutants.json is a one-token change of a function under contract (or a harmless refactoring of it):
  {"name":..., "file": path under /repo, "find": regex (must match exactly once), "replace": text, "unit":..., "jobs": regex on job ids,
   "expect": "fail" | "ok", "obligation": optional regex that must match a failed obligation}
The change is applied to a scratch copy of /repo/src under /tmp/selftest/<name>, the listed jobs are run against it (VERIF_REPO), and the
outcome is compared with the expectation: a breaking mutant must FAIL a named obligation (not merely become inconclusive), a harmless
refactoring must stay green.  Nothing under /repo or /verif/evidence is written.
"""
import sys, os, re, json, shutil, subprocess, importlib
from concurrent.futures import ThreadPoolExecutor
VERIF = os.path.dirname(os.path.dirname(os.path.abspath(__file__)))
sys.path.insert(0, VERIF)

def run_one(m):
    root = os.path.join('/tmp/selftest', re.sub(r'[^A-Za-z0-9_.-]', '_', m['name']))
    shutil.rmtree(root, ignore_errors=True); os.makedirs(root)
    try:
        subprocess.check_call(['cp', '-r', '/repo/src', root + '/src'])
        p = os.path.join(root, m['file']); s = open(p).read()
        n = len(re.findall(m['find'], s, re.S))
        if n != 1: return m, 'SETUP', 'find matched %d times' % n
        open(p, 'w').write(re.sub(m['find'], lambda _: m['replace'], s, count=1, flags=re.S))
        code = ('import sys, json; sys.path.insert(0, %r); import check; from engine import slicer\n'
                'gendir = %r\n'
                'try:\n  mod, recs = check.gen_unit(%r, gendir)\nexcept slicer.SliceError as e:\n  print(json.dumps({"slice_error": str(e)})); sys.exit(0)\n'
                'jobs = check.select_jobs(mod, None, "thorough", %r)\n'
                'res = check.run_jobs(jobs, gendir, %r, with_vacuity=False)\n'
                'print(json.dumps([{"id": r["id"], "status": r["status"], "reason": r["reason"][:300], "failed": [(o["name"], o["desc"]) for o in r["failed"][:6]]} for r in res]))\n'
                ) % (VERIF, root + '/gen', m['unit'], m['jobs'], root + '/work')
        env = dict(os.environ); env['VERIF_REPO'] = root; env['VERIF_JOBS'] = '4'
        pr = subprocess.run([sys.executable, '-c', code], env=env, stdout=subprocess.PIPE, stderr=subprocess.PIPE)
        out = pr.stdout.decode().strip().splitlines()
        if not out: return m, 'ERROR', pr.stderr.decode()[-400:]
        res = json.loads(out[-1])
        if isinstance(res, dict): return m, 'inconclusive', 'slicer: ' + res['slice_error']
        if not res: return m, 'SETUP', 'no job matches ' + m['jobs']
        failed = [(r['id'], f) for r in res for f in r['failed']]
        if any(r['status'] == 'fail' for r in res):
            if m.get('obligation') and not any(re.search(m['obligation'], (f[0] or '') + ' ' + (f[1] or '')) for _, f in failed): return m, 'fail', 'failed, but not the expected obligation: %s' % failed[:3]
            return m, 'fail', '; '.join('%s: %s [%s]' % (j, f[0], (f[1] or '')[:80]) for j, f in failed[:2])
        if any(r['status'] == 'inconclusive' for r in res): return m, 'inconclusive', '; '.join(r['id'] + ': ' + r['reason'] for r in res if r['status'] == 'inconclusive')[:300]
        return m, 'ok', ''
    finally:
        shutil.rmtree(root, ignore_errors=True)

def main():
    a = sys.argv[1:]
    par = 4
    if '-j' in a: i = a.index('-j'); par = int(a[i + 1]); del a[i:i + 2]
    rx = a[0] if a else '.'
    muts = [m for m in json.load(open(os.path.join(VERIF, 'tools', 'selftest_mutants.json'))) if re.search(rx, m['name'])]
    bad = 0
    with ThreadPoolExecutor(max_workers=par) as ex:
        for m, got, detail in ex.map(run_one, muts):
            okay = got == m['expect'] and not detail.startswith('failed, but not')
            if not okay: bad += 1
            print('%-6s %-44s expect=%-4s got=%-12s %s' % ('OK' if okay else 'MISS', m['name'], m['expect'], got, detail[:220]))
    print('selftest: %d mutants, %d not as expected' % (len(muts), bad))
    return 1 if bad else 0

if __name__ == '__main__':
    sys.exit(main())
