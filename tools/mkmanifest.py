#!/usr/bin/env python3
"""Writes MANIFEST.json from the table below (single source of truth for claims) and validates it."""
import json, sys
props = [json.loads(l) for l in open('/verif/properties.jsonl')]
import os
sys.path.insert(0, os.path.dirname(os.path.abspath(__file__)))
from claims import CLAIMS, NA
NA_REASON = 'not claimed'
m = {"version": 1,
 "setup_cmd": "true",
 "hooks": {"guard": "DRACO_VERIF", "enable": "no guarded hooks exist: CBMC's C++ front end rejects contract syntax, so contracts live in /verif/contracts and are bound to function bodies sliced from /repo's working tree on every run", "baseline_off_cmd": "/verif/run_baseline.sh", "source_commits": [], "add_only": True},
 "engines": [{"name": "cbmc-contracts", "path": "/verif/check.py", "serves_properties": sorted(CLAIMS), "kind_free_text": "slicer (C++ -> C, closed rule list) + goto-cc + goto-instrument --dfcc + cbmc; native co-simulation and counterexample replay against the real code"}],
 "checks": [], "notes": "see DESIGN.md; genuine defects repaired by fix: commits are listed in known_findings.txt",
 "not_applicable": []}
for p in props:
    i = p['id']
    if i in CLAIMS:
        c = CLAIMS[i]
        m['checks'].append({"property_id": i, "quick_cmd": "python3 /verif/check.py %s --tier quick" % i, "thorough_cmd": "python3 /verif/check.py %s --tier thorough" % i,
                            "evidence_file": "/verif/evidence/%s.json" % i, "replay_cmd_template": "python3 /verif/check.py replay {path}", "engine": "cbmc-contracts",
                            "level_claimed": {"category": c['category'], "text": c['text'], "design_ref": c['design_ref']}, "level_note": c['note'], "technique": c['technique']})
    else:
        m['not_applicable'].append({"property_id": i, "reason": NA.get(i, NA_REASON)})
json.dump(m, open('/verif/MANIFEST.json', 'w'), indent=1)
print('written', len(m['checks']), 'checks')
