#!/usr/bin/env python3
"""Writes MANIFEST.json from the table below (single source of truth for claims) and validates it."""
import json, sys
props = [json.loads(l) for l in open('/verif/properties.jsonl')]
CLAIMS = {
 'C17': {
   'category': 'proof',
   'text': 'CBMC discharges, for all inputs, the function contracts (goto-instrument --dfcc) of the bitstream primitives sliced from /repo on every run: zig-zag maps of all four widths (closed form + both inverse directions), array zig-zag (loop contracts, any length), DecoderBuffer Peek/Decode of every scalar width (bounds, value, position, frame), BitDecoder GetBit/PeekBit/GetBits/EnsureBits/AvailBits/reset (loop contracts, any buffer length), varint decoding (inductive contract over the recursion), and the varint encode->decode round trip for all values of all 8 integer types incl. truncated and exact-length buffers (recursion unwound to its width bound with unwinding assertions). Not covered: composition of per-operation lemmas over whole bit sequences (paper induction).',
   'design_ref': 'DESIGN.md section 5 (C17)',
   'note': 'Trusted: CBMC 6.11; slicer rules (guarded by native co-simulation against the real compiled functions); std::vector stub model; DecoderBuffer representation invariant as precondition.',
   'technique': 'contract-based deductive verification (CBMC function + loop contracts via goto-instrument --dfcc) on code sliced mechanically from /repo each run'},
},
 'C16': {
   'category': 'proof',
   'text': 'CBMC proves on the text sliced from /repo each run: wrap transform - for ALL (min,max) the transform accepts (contract of InitCorrectionBounds: accepted iff 0 <= max-min < 2^31-1, announced interval as specified), ALL originals in range and ALL 32-bit predictions, the correction lies in the announced interval and the decoder returns the original (per component; no signed overflow on either side; arbitrary corrections are UB-free); canonicalized octahedral transform - for each quantization q (quick: 8 values of q, thorough: all 2..30) and ALL pairs of canonical coordinates, corrections in [0,max_value] and decoder returns the original; contracts of ClampPredictedValue (loop contract, any component count), DecodeTransformData of both transforms, SetQuantizationBits, AddAsUnsigned.',
   'design_ref': 'DESIGN.md section 5 (C16)',
   'note': 'Trusted: CBMC; slicer (co-simulated); Point2/VectorD stand-ins in contracts/pred_helpers.h; the lemma is per component (component loop unwound for 1 component, 2 in thorough).',
   'technique': 'contract-based deductive verification (CBMC contracts + full-domain symbolic lemmas) on code sliced from /repo each run'},
}
NA_REASON = 'check not built yet (see DESIGN.md for the plan)'
NA = {}
m = {"version": 1,
 "setup_cmd": "true",
 "hooks": {"guard": "DRACO_VERIF", "enable": "no guarded hooks exist: CBMC's C++ front end rejects contract syntax, so contracts live in /verif/contracts and are bound to function bodies sliced from /repo's working tree on every run", "baseline_off_cmd": "/verif/run_baseline.sh", "source_commits": [], "add_only": True},
 "engines": [{"name": "cbmc-contracts", "path": "/verif/check.py", "serves_properties": sorted(CLAIMS), "kind_free_text": "slicer (C++ -> C, closed rule list) + goto-cc + goto-instrument --dfcc + cbmc; native co-simulation and counterexample replay against the real code"}],
 "checks": [], "notes": "see DESIGN.md; genuine defects repaired by fix: commits are listed in known_findings.txt",
 "not_applicable": []}
for p in props:
    i = p['id']
    if i in CLAIMS:
        c = CLAIMS[i]
        m['checks'].append({"property_id": i, "quick_cmd": "python3 /verif/check.py %s --tier quick" % i, "thorough_cmd": "python3 /verif/check.py %s --tier thorough" % i,
                            "evidence_file": "/verif/evidence/%s.json" % i, "replay_cmd_template": "python3 /verif/check.py replay {path}", "engine": "cbmc-contracts",
                            "level_claimed": {"category": c['category'], "text": c['text'], "design_ref": c['design_ref']}, "level_note": c['note'], "technique": c['technique']})
    else:
        m['not_applicable'].append({"property_id": i, "reason": NA.get(i, NA_REASON)})
json.dump(m, open('/verif/MANIFEST.json', 'w'), indent=1)
print('written', len(m['checks']), 'checks')
