#!/bin/bash
# usage: confirm_seed.sh <worktree> <seeddir> <name>   e.g. confirm_seed.sh /tmp/wt_C17 /tmp/seedout/C17 A
# Confirms: patch applies; lib+tests build; test results identical to the unpatched tree; demo passes without and fails with the patch.
wt=$1; sd=$2; n=$3
cd $wt || exit 2
git checkout -q -- . ; cmake --build _build -j16 >/dev/null 2>&1 || { echo "BASE BUILD FAILED"; exit 2; }
base=$(cd _build && ./draco_tests 2>&1 | grep -E "^\[  (PASSED|FAILED)  \]" | sed "s| (.*ms)||" | sort | md5sum)
g++ -std=c++11 -O1 -I$wt/src -I$wt/_build $sd/$n.demo.cc $wt/_build/libdraco.a -o /tmp/demo_$$ 2>/tmp/demo_$$.err || { echo "DEMO BUILD FAILED (base)"; tail -5 /tmp/demo_$$.err; exit 2; }
(cd /tmp && timeout 300 /tmp/demo_$$ >/tmp/demo_$$.out 2>&1); rc0=$?
git apply $sd/$n.patch.diff || { echo "PATCH DOES NOT APPLY"; exit 2; }
cmake --build _build -j16 >/dev/null 2>&1 || { echo "PATCHED BUILD FAILED"; git checkout -q -- .; exit 2; }
pat=$(cd _build && ./draco_tests 2>&1 | grep -E "^\[  (PASSED|FAILED)  \]" | sed "s| (.*ms)||" | sort | md5sum)
ft=$(cd _build && ./draco_factory_tests 2>&1 | grep -c "PASSED  \] 4 tests")
g++ -std=c++11 -O1 -I$wt/src -I$wt/_build $sd/$n.demo.cc $wt/_build/libdraco.a -o /tmp/demo_$$ 2>/dev/null
(cd /tmp && timeout 300 /tmp/demo_$$ >/tmp/demo_$$.out2 2>&1); rc1=$?
git checkout -q -- .
rm -f /tmp/demo_$$ /tmp/demo_$$.*
same=no; [ "$base" = "$pat" ] && same=yes
echo "seed=$sd/$n tests_same=$same factory_ok=$ft demo_rc_unpatched=$rc0 demo_rc_patched=$rc1"
[ $same = yes ] && [ $rc0 = 0 ] && [ $rc1 != 0 ] && echo CONFIRMED || echo NOT-CONFIRMED
