/* Unit 'metatree' (C11/C18/C02): nesting of decoded metadata. Body sliced into metatree_slice.c. */
#include "core_contracts.h"
#include <stdlib.h>
#include "metatree_types.h"

#define MT_MAXNODES 8
#define MT_MAXTOK 32
#define MT_STACK 16
struct MetaNode { int id; int parent_id; uint32_t name; int n_entries; uint32_t entry[2]; };
struct MetadataTuple { struct MetaNode *parent_metadata; struct MetaNode *decoded_metadata; int level; };
struct mstack { struct MetadataTuple item[MT_STACK]; int n; };
/* MetadataDecoder seen from DecodeMetadata: a token stream and a pool of ghost nodes */
struct MDT { uint32_t tok[MT_MAXTOK]; int ntok; int pos; int64_t remaining; struct MetaNode node[MT_MAXNODES]; int nnodes; int64_t max_pushes_seen; int fail_name_at; };

static inline void mstack_init(struct MDT *self, struct mstack *s) { s->n = 0; }
static inline bool mstack_empty(const struct mstack *s) { return s->n == 0; }
static inline void mstack_push(struct mstack *s, struct MetadataTuple t) {
#ifdef VERIF_CBMC
  __CPROVER_assert(s->n < MT_STACK, "stub: stack model capacity");
#endif
  s->item[s->n++] = t; }
static inline struct MetadataTuple mstack_back(const struct mstack *s) {
#ifdef VERIF_CBMC
  __CPROVER_assert(s->n > 0, "std::vector::back() on an empty vector");
#endif
  return s->item[s->n - 1]; }
static inline void mstack_pop(struct mstack *s) { s->n--; }
static inline size_t mstack_size(const struct mstack *s) { return (size_t)s->n; }
static inline struct MetadataTuple mstack_at(const struct mstack *s, size_t i) {
#ifdef VERIF_CBMC
  __CPROVER_assert(i < (size_t)s->n, "std::vector::operator[] out of range");
#endif
  return s->item[i]; }

#ifdef VERIF_CBMC
static bool tok_pop(struct MDT *self, uint32_t *out) { if (self->pos >= self->ntok) return false; *out = self->tok[self->pos++]; if (self->remaining > 0) self->remaining--; return true; }
bool MDT_DecodeName(struct MDT *self, uint32_t *name) { return tok_pop(self, name); }
bool MDT_DecodeVarint(struct MDT *self, uint32_t *v) { return tok_pop(self, v); }
bool MDT_DecodeEntry(struct MDT *self, struct MetaNode *m) { uint32_t e; if (!tok_pop(self, &e)) return false; __CPROVER_assert(m != 0, "metatree.entry_added_to_a_node"); if (m->n_entries < 2) m->entry[m->n_entries] = e; m->n_entries++; return true; }
int64_t MDT_remaining_size(struct MDT *self) { return self->remaining; }
struct MetaNode *MetaNode_new(struct MDT *self) { __CPROVER_assert(self->nnodes < MT_MAXNODES, "stub: node pool capacity"); struct MetaNode *n = &self->node[self->nnodes]; n->id = self->nnodes++; n->parent_id = -1; n->name = 0; n->n_entries = 0; return n; }
bool MetaNode_AddSubMetadata(struct MetaNode *parent, uint32_t name, struct MetaNode *child) { __CPROVER_assert(parent != 0 && child != 0, "metatree.AddSubMetadata.arguments"); child->parent_id = parent->id; child->name = name; return true; }
#include "core_helpers.h"
#include "metatree_slice.c"

/* expected tree: node 0 is the root; nodes are numbered in the order the encoder writes them (pre-order); parent[i] < i */
static int exp_parent[4]; static int exp_n; static uint32_t exp_name[4]; static int exp_nent[4]; static uint32_t exp_entry[4];
static void emit(struct MDT *d, int k, int depth) {
  /* MetadataEncoder::EncodeMetadata(k): number of entries, the entries, number of sub-metadata, then for each sub-metadata: name, EncodeMetadata(sub) */
  d->tok[d->ntok++] = (uint32_t)exp_nent[k];
  if (exp_nent[k] == 1) d->tok[d->ntok++] = exp_entry[k];
  int nsub = 0; for (int c = 1; c < 4; ++c) if (c < exp_n && exp_parent[c] == k) nsub++;
  d->tok[d->ntok++] = (uint32_t)nsub;
  for (int c = 1; c < 4; ++c) if (c < exp_n && exp_parent[c] == k) { d->tok[d->ntok++] = exp_name[c]; if (depth < 3) emit(d, c, depth + 1); }
}
/* metatree.nesting (C11; BOUNDED: <= 4 nodes, every shape): what the decoder builds from the encoder's stream is the encoder's tree */
void h_metatree_nesting(void) {
  GHOSTS();
  int n; __CPROVER_assume(n >= 1 && n <= 4); exp_n = n;
  exp_parent[0] = -1;
  for (int i = 1; i < 4; ++i) { int p; __CPROVER_assume(p >= 0 && p < i); exp_parent[i] = p; }
  /* pre-order numbering: the parent of node i is node i-1 or one of its ancestors */
  for (int i = 2; i < 4; ++i) if (i < n) { int a = i - 1; bool on_path = false; for (int s = 0; s < 4; ++s) { if (a == exp_parent[i]) on_path = true; if (a > 0) a = exp_parent[a]; } __CPROVER_assume(on_path); }
  for (int i = 0; i < 4; ++i) { uint32_t nm, en; int ne; __CPROVER_assume(ne == 0 || ne == 1); exp_name[i] = nm; exp_entry[i] = en; exp_nent[i] = ne; }
  struct MDT d; d.ntok = 0; d.pos = 0; d.nnodes = 1; d.node[0].id = 0; d.node[0].parent_id = -1; d.node[0].name = 0; d.node[0].n_entries = 0;
  emit(&d, 0, 0);
  d.remaining = 1000;
  bool ok = MD_DecodeMetadata(&d, &d.node[0]);
  __CPROVER_assert(ok, "metatree.nesting.decoder_accepts_the_encoders_stream");
  __CPROVER_assert(d.pos == d.ntok, "metatree.nesting.consumed_eq_produced");
  __CPROVER_assert(d.nnodes == n, "metatree.nesting.same_number_of_nodes");
  /* the decoder creates its nodes in the order it meets their names, which need not be the encoder's numbering: match nodes by the position of their
   * name token = creation order is pre-order for a correct decoder; compare parent NAMES and own entries through the creation-order mapping */
  int k; __CPROVER_assume(k >= 1 && k < n);
  __CPROVER_assert(d.node[k].name == exp_name[k], "metatree.nesting.names_in_stream_order");
  __CPROVER_assert(d.node[k].parent_id == exp_parent[k], "metatree.nesting.sub_metadata_attached_to_the_parent_it_was_written_under");
  int j; __CPROVER_assume(j >= 0 && j < n);
  __CPROVER_assert(d.node[j].n_entries == exp_nent[j] && (exp_nent[j] == 0 || d.node[j].entry[0] == exp_entry[j]), "metatree.nesting.entries_stay_with_their_node");
  HARNESS_END();
}
/* metatree.guards (C18/C02): a declared number of sub-metadata larger than the remaining input is refused before anything is queued for it */
void h_metatree_guards(void) {
  GHOSTS();
  struct MDT d; d.ntok = 2; d.pos = 0; d.nnodes = 1; d.node[0].id = 0; d.node[0].parent_id = -1; d.node[0].name = 0; d.node[0].n_entries = 0;
  uint32_t nsub; int64_t rem; __CPROVER_assume(rem >= 2 && rem <= 5);
  d.tok[0] = 0; d.tok[1] = nsub; d.remaining = rem;
  bool ok = MD_DecodeMetadata(&d, &d.node[0]);
  __CPROVER_assert(!((int64_t)nsub > rem - 2) || !ok, "metatree.guards.sub_metadata_count_justified_by_remaining_input");
  __CPROVER_assert(nsub != 0 || ok, "metatree.guards.leaf_accepted");
  HARNESS_END();
}
#endif
