/* Unit 'quant' (C04/C12): quantizer kernels. Bodies sliced into quant_slice.c. */
#include "core_contracts.h"
#include <math.h>
#include "quant_types.h"

/* purity: the kernels read only their own parameter and the single member; nothing is written (frame = empty).  This is the kernel half
 * of C12: the quantised index depends on (value, inverse_delta) only. */
int32_t Quantizer_QuantizeFloat(const struct Quantizer *self, float val)
__CPROVER_requires(__CPROVER_is_fresh(self, sizeof(struct Quantizer)) && self->inverse_delta_ >= 0.0f && self->inverse_delta_ <= 1e30f && val >= 0.0f && val <= 1e30f && val * self->inverse_delta_ <= 1073741824.0f)
__CPROVER_ensures(__CPROVER_return_value >= 0)
__CPROVER_assigns();
float Dequantizer_DequantizeFloat(const struct Dequantizer *self, int32_t val)
__CPROVER_requires(__CPROVER_is_fresh(self, sizeof(struct Dequantizer)) && self->delta_ == self->delta_ /* not NaN */)
__CPROVER_assigns();
bool AQT_IsQuantizationValid(int quantization_bits)
__CPROVER_ensures(__CPROVER_return_value == (quantization_bits >= 1 && quantization_bits <= 30))
__CPROVER_assigns();
bool Dequantizer_Init(struct Dequantizer *self, float range, int32_t max_quantized_value)
__CPROVER_requires(__CPROVER_is_fresh(self, sizeof(struct Dequantizer)) && self->delta_ == self->delta_ /* not NaN */)
__CPROVER_ensures(__CPROVER_return_value == (max_quantized_value > 0))
__CPROVER_ensures(!__CPROVER_return_value ==> self->delta_ == __CPROVER_old(self->delta_))
__CPROVER_assigns(self->delta_);

static inline bool EncoderBuffer_Encode_u8_val(struct EncoderBuffer *b, uint8_t v) { return EncoderBuffer_Encode_u8(b, &v); } /* Encode<uint8_t>(const T&) called with a temporary */
static inline bool AQTP_is_initialized(const struct AQTP *self) { return self->quantization_bits_ != -1; }   /* is_initialized(): quantization_bits_ != -1 */
static inline void fvec_resize(struct fvec *v, size_t n) {
#ifdef VERIF_CBMC
  __CPROVER_assert(n <= v->cap, "stub: vector model capacity");
#endif
  for (size_t i = v->size; i < n; ++i) v->data[i] = 0.0f; v->size = n; }
#ifdef VERIF_CBMC
#include "core_helpers.h"
#include "core_slice.c"
#include "quant_slice.c"
void h_enf_Quantizer_QuantizeFloat(void) { GHOSTS(); const struct Quantizer *q; float v; Quantizer_QuantizeFloat(q, v); HARNESS_END(); }
void h_enf_Dequantizer_DequantizeFloat(void) { GHOSTS(); const struct Dequantizer *q; int32_t v; Dequantizer_DequantizeFloat(q, v); HARNESS_END(); }
void h_enf_AQT_IsQuantizationValid(void) { GHOSTS(); int b; AQT_IsQuantizationValid(b); HARNESS_END(); }
void h_enf_Dequantizer_Init(void) { GHOSTS(); struct Dequantizer *d; float r; int32_t m; Dequantizer_Init(d, r, m); HARNESS_END(); }
#endif

#ifdef VERIF_CBMC
/* quant.params.rt (C04/C05/C12; BOUNDED: 1..3 components): the parameters of a quantized attribute travel as origin per component (float32 each), range
 * (float32), bit count (one byte), in this order; what the decoder reads is bit-for-bit what the encoder had (any float bit pattern, any bit count 1..30),
 * consumed == produced; a bit count outside 1..30 is refused. */
void h_quant_params_rt(void) {
  GHOSTS();
  int nc, bits; uint32_t ob[3], rb; __CPROVER_assume(nc >= 1 && nc <= 3 && bits >= 0 && bits <= 255);
#ifdef QP_NC
  nc = QP_NC;
#endif
  float org[3]; for (int i = 0; i < 3; ++i) memcpy(&org[i], &ob[i], 4);
  struct AQTP e; e.quantization_bits_ = bits; e.min_values_.data = org; e.min_values_.size = (size_t)nc; e.min_values_.cap = 3; memcpy(&e.range_, &rb, 4);
  char store[32]; for (int i = 0; i < 32; ++i) store[i] = 0x55;
  struct EncoderBuffer eb; eb.buffer_.data = store; eb.buffer_.size = 0; eb.buffer_.cap = 32; eb.bit_encoder_ = 0; eb.bit_encoder_reserved_bytes_ = 0; eb.encode_bit_sequence_size_ = false;
  bool eok = AQT_EncodeParameters(&e, &eb);
  __CPROVER_assert(eok && eb.buffer_.size == 4 * (size_t)nc + 5, "quant.params.rt.frozen_layout_length");
  __CPROVER_assert((uint8_t)store[4 * nc + 4] == (uint8_t)bits, "quant.params.rt.bit_count_is_the_last_byte");
  struct DecoderBuffer db; db.data_ = store; db.data_size_ = (int64_t)eb.buffer_.size; db.pos_ = 0; db.bit_mode_ = false; db.bitstream_version_ = DRACO_BITSTREAM_VERSION(2, 2);
  float dorg[3] = {0, 0, 0}; struct AQTP d; d.quantization_bits_ = -1; d.min_values_.data = dorg; d.min_values_.size = 0; d.min_values_.cap = 3; d.range_ = 0.0f;
  bool dok = AQT_DecodeParameters(&d, nc, &db);
  __CPROVER_assert(dok == (bits >= 1 && bits <= 30), "quant.params.rt.accepted_iff_bit_count_1_to_30");
  if (dok) {
    uint32_t got_r; memcpy(&got_r, &d.range_, 4);
    __CPROVER_assert(d.quantization_bits_ == bits && got_r == rb && d.min_values_.size == (size_t)nc && db.pos_ == (int64_t)eb.buffer_.size, "quant.params.rt.range_bits_and_position");
    int k; __CPROVER_assume(k >= 0 && k < nc); uint32_t got_o; memcpy(&got_o, &dorg[k], 4);
    __CPROVER_assert(got_o == ob[k], "quant.params.rt.origin_bit_exact");
  }
  HARNESS_END();
}
#endif

#ifndef Q
#define Q 8
#endif
/* quant.grid.q (C04): for EVERY float32 range in [1e-30, 1e30] and every value v in [0, range]: the index is in [0, 2^q] (2^q - 1 is not
 * a float32 for q >= 25, so the code can produce 2^q there; for q <= 24 the bound is 2^q - 1), the float->int conversion is defined, and the
 * dequantized value never leaves [0, range] by more than one part in 2^20 (float32 rounding allowance). */
void h_quant_grid(void) {
  NONDET(float, range); NONDET(float, v);
  ASSUME(range >= 1e-30f && range <= 1e30f && v >= 0.0f && v <= range);
  const int32_t maxq = (int32_t)((1u << Q) - 1);
  struct Quantizer qz; qz.inverse_delta_ = 1.0f; Quantizer_Init(&qz, range, maxq);
  int32_t k = Quantizer_QuantizeFloat(&qz, v);
  ASSERT(k >= 0 && k <= (Q <= 24 ? maxq : maxq + 1), "quant.grid.index_in_range");
  struct Dequantizer dq; dq.delta_ = 1.0f; bool ok = Dequantizer_Init(&dq, range, maxq);
  float back = Dequantizer_DequantizeFloat(&dq, k);
  ASSERT(ok && back >= 0.0f && back <= range * (1.0f + 1.0f / 1048576.0f), "quant.grid.decoded_value_inside_box");
  HARNESS_END();
}
/* quant.mono (C04): rounding to the grid is monotone: v1 <= v2 => index(v1) <= index(v2), any positive inverse step */
void h_quant_mono(void) {
  NONDET(float, inv); NONDET(float, v1); NONDET(float, v2);
  ASSUME(inv >= 1e-30f && inv <= 1e30f && v1 >= 0.0f && v1 <= v2 && v2 <= 1e30f && v2 * inv <= 1073741824.0f);
  struct Quantizer qz; qz.inverse_delta_ = inv;
  ASSERT(Quantizer_QuantizeFloat(&qz, v1) <= Quantizer_QuantizeFloat(&qz, v2), "quant.mono");
  HARNESS_END();
}
/* quant.range (C04, bounded num_components <= 4): the quantization range chosen by ComputeParameters is the largest per-component extent,
 * or 1 if all extents are zero; NaN/Inf bounds are rejected. */
void h_aqt_range(void) {
  NONDET(int32_t, nc); NONDET_ARR(float, mn, 4); NONDET_ARR(float, mx, 4);
  ASSUME(nc >= 1 && nc <= 4);
  for (int c = 0; c < 4; ++c) ASSUME(c >= nc || !(mn[c] > mx[c]));      /* min <= max as computed by the preceding scan (NaN allowed) */
  struct AQT t; t.quantization_bits_ = 10; t.min_values_ = mn; t.range_ = 0.f;
  bool ok = AQT_ComputeRangeTail(&t, nc, mx);
  bool bad = false; float best = 0.f;
  for (int c = 0; c < 4; ++c) if (c < nc) { if (isnan(mn[c]) || isinf(mn[c]) || isnan(mx[c]) || isinf(mx[c])) bad = true; else if (mx[c] - mn[c] > best) best = mx[c] - mn[c]; }
  ASSERT(ok == !bad, "quant.range.nan_inf_rejected");
  ASSERT(!ok || t.range_ == (best == 0.f ? 1.f : best), "quant.range.is_largest_extent_or_one");
  HARNESS_END();
}
