/* Unit 'bitcoders' (C17/C02/C18): direct and rANS bit coders, per-operation contracts and inverse lemmas. */
#include "ans_contracts.h"
#include "vec_bits.h"
#include "bitcoders_types.h"
#include <stdlib.h>

/* `bits_.resize(n)` in DirectBitDecoder::StartDecoding -- C18 is stated HERE: the word buffer may not exceed the remaining input */
void vec_w32_resize_alloc(struct DirectBitDecoder *self, uint32_t n)
__CPROVER_requires((int64_t)n * 4 <= self->remaining_at_entry)
__CPROVER_ensures(self->bits_.size == n && self->bits_.cap == n && __CPROVER_is_fresh(self->bits_.data, (size_t)(n ? n : 1) * 4))
__CPROVER_assigns(self->bits_);

/* DirectBitDecoder representation invariant: pos_ points into bits_ (or one past the end); at the end no bit is "in use". */
#define DD_MAXW ((size_t)1 << 28)
#define DD_FRESH(d) (__CPROVER_is_fresh(d, sizeof(struct DirectBitDecoder)) && (d)->bits_.size <= DD_MAXW && __CPROVER_is_fresh((d)->bits_.data, ((d)->bits_.size ? (d)->bits_.size : 1) * 4) && \
   ghost_len <= (d)->bits_.size && __CPROVER_pointer_equals((d)->pos_, (d)->bits_.data + ghost_len) && (d)->num_used_bits_ < 32 && (ghost_len < (d)->bits_.size || (d)->num_used_bits_ == 0))
/* bit number k of the word stream, MSB first */
#define DD_BIT(d, k) (((d)->bits_.data[(k) >> 5] >> (31 - ((k) & 31))) & 1)
bool DirectBitDecoder_DecodeNextBit(struct DirectBitDecoder *self)
__CPROVER_requires(DD_FRESH(self))
__CPROVER_ensures(ghost_len < self->bits_.size ? (__CPROVER_return_value == DD_BIT(self, 32 * ghost_len + __CPROVER_old(self->num_used_bits_))) : !__CPROVER_return_value)
__CPROVER_ensures(ghost_len < self->bits_.size ? (32 * (size_t)(self->pos_ - self->bits_.data) + self->num_used_bits_ == 32 * ghost_len + __CPROVER_old(self->num_used_bits_) + 1) \
                                               : (self->pos_ == __CPROVER_old(self->pos_) && self->num_used_bits_ == 0))
__CPROVER_ensures(self->num_used_bits_ < 32 && self->pos_ <= self->bits_.data + self->bits_.size && (self->pos_ < self->bits_.data + self->bits_.size || self->num_used_bits_ == 0))
__CPROVER_assigns(self->pos_, self->num_used_bits_);
/* reading nbits (1..32): succeeds iff that many bits remain in the word buffer; never reads outside it; value = the next nbits bits MSB first */
bool DirectBitDecoder_DecodeLeastSignificantBits32(struct DirectBitDecoder *self, int nbits, uint32_t *value)
__CPROVER_requires(DD_FRESH(self) && nbits >= 1 && nbits <= 32 && __CPROVER_is_fresh(value, 4))
__CPROVER_ensures(__CPROVER_return_value == (32 * ghost_len + __CPROVER_old(self->num_used_bits_) + (size_t)nbits <= 32 * self->bits_.size))
__CPROVER_ensures(!__CPROVER_return_value || (32 * (size_t)(self->pos_ - self->bits_.data) + self->num_used_bits_ == 32 * ghost_len + __CPROVER_old(self->num_used_bits_) + (size_t)nbits))
__CPROVER_ensures(!(__CPROVER_return_value && ghost_bit < (uint32_t)nbits) || ((*value >> (nbits - 1 - ghost_bit)) & 1) == DD_BIT(self, 32 * ghost_len + __CPROVER_old(self->num_used_bits_) + ghost_bit))
__CPROVER_ensures(!(__CPROVER_return_value && nbits < 32) || (*value >> nbits) == 0)
__CPROVER_ensures(__CPROVER_return_value || (self->pos_ == __CPROVER_old(self->pos_) && self->num_used_bits_ == __CPROVER_old(self->num_used_bits_)))
__CPROVER_ensures(self->num_used_bits_ < 32 && self->pos_ <= self->bits_.data + self->bits_.size && (self->pos_ < self->bits_.data + self->bits_.size || self->num_used_bits_ == 0))
__CPROVER_assigns(self->pos_, self->num_used_bits_, *value);
bool DirectBitDecoder_StartDecoding(struct DirectBitDecoder *self, struct DecoderBuffer *source_buffer)
__CPROVER_requires(__CPROVER_is_fresh(self, sizeof(struct DirectBitDecoder)) && DB_FRESH(source_buffer) && self->remaining_at_entry == source_buffer->data_size_ - source_buffer->pos_)
__CPROVER_ensures(DB_INV(source_buffer) && source_buffer->pos_ >= __CPROVER_old(source_buffer->pos_))
__CPROVER_ensures(!__CPROVER_return_value || (self->bits_.size >= 1 && self->pos_ == self->bits_.data && self->num_used_bits_ == 0 && \
                   source_buffer->pos_ == __CPROVER_old(source_buffer->pos_) + 4 + 4 * (int64_t)self->bits_.size))
__CPROVER_assigns(source_buffer->pos_, self->bits_, self->pos_, self->num_used_bits_);

/* RAnsBitDecoder */
#define RBD_FRESH(d) (__CPROVER_is_fresh(d, sizeof(struct RAnsBitDecoder)) && (d)->ans_decoder_.buf_offset >= 0 && (d)->ans_decoder_.buf_offset <= AD_MAX && \
   __CPROVER_is_fresh((d)->ans_decoder_.buf, (size_t)(d)->ans_decoder_.buf_offset) && (d)->ans_decoder_.state < ANS_TOP)
bool RAnsBitDecoder_DecodeNextBit(struct RAnsBitDecoder *self)
__CPROVER_requires(RBD_FRESH(self))
__CPROVER_ensures(self->ans_decoder_.state < ANS_TOP && 0 <= self->ans_decoder_.buf_offset && self->ans_decoder_.buf_offset <= __CPROVER_old(self->ans_decoder_.buf_offset))
__CPROVER_assigns(self->ans_decoder_.state, self->ans_decoder_.buf_offset);
void RAnsBitDecoder_DecodeLeastSignificantBits32(struct RAnsBitDecoder *self, int nbits, uint32_t *value)
__CPROVER_requires(RBD_FRESH(self) && nbits >= 1 && nbits <= 32 && __CPROVER_is_fresh(value, 4))
__CPROVER_ensures(self->ans_decoder_.state < ANS_TOP && 0 <= self->ans_decoder_.buf_offset && self->ans_decoder_.buf_offset <= __CPROVER_old(self->ans_decoder_.buf_offset))
__CPROVER_assigns(self->ans_decoder_.state, self->ans_decoder_.buf_offset, *value);
/* StartDecoding on arbitrary bytes: the rABS payload declared by the stream must fit into the remaining input (C18), the reader is
 * positioned after it, the decoder state is in range */
bool RAnsBitDecoder_StartDecoding(struct RAnsBitDecoder *self, struct DecoderBuffer *source_buffer)
__CPROVER_requires(__CPROVER_is_fresh(self, sizeof(struct RAnsBitDecoder)) && DB_FRESH(source_buffer) && source_buffer->data_size_ <= (int64_t)AD_MAX)
__CPROVER_ensures(DB_INV(source_buffer) && source_buffer->pos_ >= __CPROVER_old(source_buffer->pos_))
__CPROVER_ensures(!__CPROVER_return_value || (self->ans_decoder_.state >= ANS_LB && self->ans_decoder_.state < ANS_TOP && self->ans_decoder_.buf_offset >= 0 && \
                   (int64_t)self->ans_decoder_.buf_offset < source_buffer->pos_ - __CPROVER_old(source_buffer->pos_)))
__CPROVER_assigns(source_buffer->pos_, self->prob_zero_, self->ans_decoder_);

int ans_read_end(struct AnsDecoder *const ans) __CPROVER_ensures(__CPROVER_return_value == (ans->state == ANS_LB)) __CPROVER_assigns();

#ifdef VERIF_CBMC
/* body of the resize stand-in, used only where a job does not replace it by its contract (fully inlined lemmas) */
void vec_w32_resize_alloc(struct DirectBitDecoder *self, uint32_t n) { __CPROVER_assert(n <= self->bits_.cap, "stub: vector model capacity"); for (uint32_t i = self->bits_.size; i < n; ++i) self->bits_.data[i] = 0; self->bits_.size = n; }
#include "core_helpers.h"
#include "core_slice.c"
#include "ans_slice.c"
#include "bitcoders_slice.c"
void h_enf_DirectBitDecoder_DecodeNextBit(void) { AGHOSTS(); struct DirectBitDecoder *d; DirectBitDecoder_DecodeNextBit(d); HARNESS_END(); }
void h_enf_DirectBitDecoder_DecodeLeastSignificantBits32(void) { AGHOSTS(); struct DirectBitDecoder *d; int n; uint32_t *v; DirectBitDecoder_DecodeLeastSignificantBits32(d, n, v); HARNESS_END(); }
void h_enf_DirectBitDecoder_StartDecoding(void) { AGHOSTS(); struct DirectBitDecoder *d; struct DecoderBuffer *b; DirectBitDecoder_StartDecoding(d, b); HARNESS_END(); }
void h_enf_RAnsBitDecoder_DecodeNextBit(void) { AGHOSTS(); struct RAnsBitDecoder *d; RAnsBitDecoder_DecodeNextBit(d); HARNESS_END(); }
void h_enf_RAnsBitDecoder_DecodeLeastSignificantBits32(void) { AGHOSTS(); struct RAnsBitDecoder *d; int n; uint32_t *v; RAnsBitDecoder_DecodeLeastSignificantBits32(d, n, v); HARNESS_END(); }
void h_enf_RAnsBitDecoder_StartDecoding(void) { AGHOSTS(); struct RAnsBitDecoder *d; struct DecoderBuffer *b; RAnsBitDecoder_StartDecoding(d, b); HARNESS_END(); }
#endif

/* direct.rt (C17): a value of 1..32 bits written by DirectBitEncoder::EncodeLeastSignificantBits32 at ANY bit phase k (0..31) of the
 * current word, followed by one more single bit and EndEncoding, is read back by DirectBitDecoder (StartDecoding + the same sequence of
 * reads); reading beyond the written words fails.  Everything inlined; 4-word vector model. */
void h_direct_rt(void) {
  NONDET(uint32_t, k); NONDET(uint32_t, lead); NONDET(int32_t, nbits); NONDET(uint32_t, value); NONDET(uint8_t, tailbit_in);
  ASSUME(k < 32 && nbits >= 1 && nbits <= 32);
  bool tailbit = (tailbit_in & 1) != 0;
  uint32_t words[4] = {0, 0, 0, 0};
  struct DirectBitEncoder e; e.bits_.data = words; e.bits_.size = 0; e.bits_.cap = 4; e.local_bits_ = 0; e.num_local_bits_ = 0;
  /* the encoder is at bit phase k of its current word: k bits (MSB first) already placed, the rest of the word still zero */
  e.num_local_bits_ = k; e.local_bits_ = k == 0 ? 0 : (lead & ~(0xffffffffu >> k));
  DirectBitEncoder_EncodeLeastSignificantBits32(&e, nbits, value);
  DirectBitEncoder_EncodeBit(&e, tailbit);
  char store[32]; for (int i = 0; i < 32; ++i) store[i] = 0;
  struct EncoderBuffer eb; eb.buffer_.data = store; eb.buffer_.size = 0; eb.buffer_.cap = 32; eb.bit_encoder_ = 0; eb.bit_encoder_reserved_bytes_ = 0; eb.encode_bit_sequence_size_ = false;
  DirectBitEncoder_EndEncoding(&e, &eb);
  /* stream layout: uint32 byte count, then the words (flushed ones + the partially filled last one) in host byte order */
  size_t nwords = ((size_t)k + (size_t)nbits + 1 + 31) / 32;  if (((size_t)k + (size_t)nbits + 1) % 32 == 0) nwords += 1;  /* a completely filled word is flushed AND an empty one appended */
  ASSERT(eb.buffer_.size == 4 + 4 * nwords && LE32(store) == 4 * nwords, "direct.rt.stream_layout");
  /* The decoder side of StartDecoding (bounds-checked memcpy of the words; contract bitcoders.direct.StartDecoding) is replayed here word by
   * word on a little-endian host: CBMC's memcpy model with a SYMBOLIC length into a uint32_t array lost bytes (spurious failure seen
   * with k=5,nbits=31), so the copy is written out. */
  uint32_t dwords[4] = {0, 0, 0, 0};
  for (int i = 0; i < 4; ++i) if ((size_t)i < nwords) dwords[i] = LE32(store + 4 + 4 * i);
  struct DirectBitDecoder d; d.bits_.data = dwords; d.bits_.size = nwords; d.bits_.cap = 4; d.pos_ = dwords; d.num_used_bits_ = 0; d.remaining_at_entry = (int64_t)eb.buffer_.size;
  if (k > 0) { uint32_t lead_out = 0; bool lok = DirectBitDecoder_DecodeLeastSignificantBits32(&d, (int)k, &lead_out); ASSERT(lok && lead_out == (lead >> (32 - k)), "direct.rt.leading_bits"); }
  uint32_t out = 0xdeadbeef; bool ok = DirectBitDecoder_DecodeLeastSignificantBits32(&d, nbits, &out);
  ASSERT(ok && out == (nbits == 32 ? value : (value & ((1u << nbits) - 1))), "direct.rt.value");
  bool tb = DirectBitDecoder_DecodeNextBit(&d);
  ASSERT(tb == tailbit, "direct.rt.tail_bit");
  HARNESS_END();
}

/* rbit.pack (C17): RAnsBitEncoder::EncodeLeastSignificantBits32(n, v) leaves the encoder in the same state as n calls of EncodeBit,
 * most significant bit first (for every phase of the local word). */
void h_rbit_pack(void) {
  NONDET(uint32_t, k); NONDET(uint32_t, lead); NONDET(int32_t, nbits); NONDET(uint32_t, value);
  ASSUME(k < 32 && nbits >= 1 && nbits <= 32);
  uint32_t w1[4] = {0, 0, 0, 0}, w2[4] = {0, 0, 0, 0}; uint64_t c1[2] = {0, 0}, c2[2] = {0, 0};
  struct RAnsBitEncoder a, b;
  a.bits_.data = w1; a.bits_.size = 0; a.bits_.cap = 4; a.bit_counts_.data = c1; a.bit_counts_.size = 2; a.bit_counts_.cap = 2; a.local_bits_ = 0; a.num_local_bits_ = 0;
  b.bits_.data = w2; b.bits_.size = 0; b.bits_.cap = 4; b.bit_counts_.data = c2; b.bit_counts_.size = 2; b.bit_counts_.cap = 2; b.local_bits_ = 0; b.num_local_bits_ = 0;
  /* both encoders are at bit phase k of the local word: k bits (LSB first) already placed, the higher bits still zero */
  a.num_local_bits_ = b.num_local_bits_ = k; a.local_bits_ = b.local_bits_ = (k == 0 ? 0 : (lead & (0xffffffffu >> (32 - k))));
  RAnsBitEncoder_EncodeLeastSignificantBits32(&a, nbits, value);
  for (int i = 31; i >= 0; --i) if (i < nbits) RAnsBitEncoder_EncodeBit(&b, (value >> i) & 1);
  ASSERT(a.bits_.size == b.bits_.size && a.local_bits_ == b.local_bits_ && a.num_local_bits_ == b.num_local_bits_, "rbit.pack.same_word_state");
  ASSERT(w1[0] == w2[0] && w1[1] == w2[1], "rbit.pack.same_flushed_words");
  ASSERT(c1[0] == c2[0] && c1[1] == c2[1], "rbit.pack.same_bit_counts");
  HARNESS_END();
}
