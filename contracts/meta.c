/* Unit 'meta' (C11/C18/C02): metadata name and entry codec. Bodies sliced into meta_slice.c. */
#include "core_contracts.h"
#include "cstr.h"
#include "meta_types.h"
#include <stdlib.h>

/* ---- stand-ins for the C++ objects around the sliced code ---- */
static inline bool EncoderBuffer_Encode_u8_val(struct EncoderBuffer *b, uint8_t v) { return EncoderBuffer_Encode_u8(b, &v); } /* Encode<uint8_t>(const T&) called with a temporary */
void cstr_resize(struct cstr *s, size_t n)
__CPROVER_requires(n <= s->cap) __CPROVER_ensures(s->size == n) __CPROVER_assigns(s->size);
/* `std::string entry_name;` : empty string whose storage can grow to 255 bytes (names are at most 255 bytes long) */
void cstr_construct(struct MetadataDecoder *self, struct cstr *s)
__CPROVER_ensures(s->size == 0 && s->cap == 255 && __CPROVER_is_fresh(s->data, 255))
__CPROVER_assigns(*s);
/* `std::vector<uint8_t> entry_value(data_size);` -- C18 is stated HERE: the value buffer may only be as large as the remaining input */
void cbytes_construct(struct MetadataDecoder *self, struct cbytes *v, uint32_t n)
__CPROVER_requires((int64_t)n <= self->remaining_at_entry)
__CPROVER_ensures(v->size == n && __CPROVER_is_fresh(v->data, n ? n : 1))
__CPROVER_assigns(*v);
void Metadata_AddEntryBinary(struct MetadataGhost *m, const struct cstr *name, const struct cbytes *value)
__CPROVER_ensures(m->last_name == name && m->last_value == value && m->entries_added == __CPROVER_old(m->entries_added) + 1)
__CPROVER_assigns(m->last_name, m->last_value, m->entries_added);
/* the recursive/nested encoder seen from its callers: may fail; the ghost flag records whether any nested call reported failure */
bool meta_any_nested_failed;
#ifdef VERIF_CBMC
bool nondet_bool(void); uint32_t nondet_uint32(void);
bool MetadataEncoder_EncodeMetadata_rec(struct EncoderBuffer *out_buffer, const void *metadata) { bool r = nondet_bool(); if (!r) meta_any_nested_failed = true; return r; }
uint32_t AttributeMetadata_att_unique_id(const void *metadata) { return nondet_uint32(); }
#endif

/* ------------------------------------------------------------------ contracts */
#define NAME_MAX_ENC ((size_t)1 << 20)
/* EncodeString: a name longer than 255 bytes is refused and NOTHING is written; otherwise length byte + bytes are appended. */
bool MetadataEncoder_EncodeString(struct EncoderBuffer *out_buffer, const struct cstr *str)
__CPROVER_requires(EB_FRESHN(out_buffer) && !(out_buffer->bit_encoder_reserved_bytes_ > 0) && __CPROVER_is_fresh(str, sizeof(struct cstr)) && str->size <= NAME_MAX_ENC)
__CPROVER_requires((str->size == 0 || __CPROVER_is_fresh(str->data, str->size)) && out_buffer->buffer_.cap - out_buffer->buffer_.size >= 1 + str->size)
__CPROVER_requires(ghost_len2 < out_buffer->buffer_.cap)
__CPROVER_ensures(__CPROVER_return_value == (str->size <= 255))
__CPROVER_ensures(!__CPROVER_return_value ==> out_buffer->buffer_.size == __CPROVER_old(out_buffer->buffer_.size))
__CPROVER_ensures(__CPROVER_return_value ==> (out_buffer->buffer_.size == __CPROVER_old(out_buffer->buffer_.size) + 1 + str->size))
__CPROVER_ensures((__CPROVER_return_value && ghost_len2 == __CPROVER_old(out_buffer->buffer_.size)) ==> (uint8_t)out_buffer->buffer_.data[ghost_len2] == (uint8_t)str->size)
__CPROVER_ensures((__CPROVER_return_value && ghost_len < str->size) ==> out_buffer->buffer_.data[__CPROVER_old(out_buffer->buffer_.size) + 1 + ghost_len] == str->data[ghost_len])
__CPROVER_ensures(ghost_len2 >= __CPROVER_old(out_buffer->buffer_.size) || out_buffer->buffer_.data[ghost_len2] == __CPROVER_old(out_buffer->buffer_.data[ghost_len2]))
__CPROVER_assigns(out_buffer->buffer_.size, __CPROVER_object_whole(out_buffer->buffer_.data));

#define MDEC_FRESH(d) (__CPROVER_is_fresh(d, sizeof(struct MetadataDecoder)) && DB_FRESH((d)->buffer_))
bool MetadataDecoder_DecodeName(struct MetadataDecoder *self, struct cstr *name)
__CPROVER_requires(MDEC_FRESH(self) && __CPROVER_is_fresh(name, sizeof(struct cstr)) && name->cap >= 255 && name->cap <= 4096 && name->size <= name->cap && __CPROVER_is_fresh(name->data, name->cap))
__CPROVER_ensures(DB_INV(self->buffer_) && self->buffer_->pos_ >= __CPROVER_old(self->buffer_->pos_) && self->buffer_->pos_ <= __CPROVER_old(self->buffer_->pos_) + 256)
__CPROVER_ensures(__CPROVER_return_value == (__CPROVER_old(self->buffer_->pos_) < self->buffer_->data_size_ && \
      __CPROVER_old(self->buffer_->pos_) + 1 + (int64_t)(uint8_t)self->buffer_->data_[__CPROVER_old(self->buffer_->pos_)] <= self->buffer_->data_size_))
__CPROVER_ensures(!__CPROVER_return_value || (name->size == (size_t)(uint8_t)self->buffer_->data_[__CPROVER_old(self->buffer_->pos_)] && self->buffer_->pos_ == __CPROVER_old(self->buffer_->pos_) + 1 + (int64_t)name->size))
__CPROVER_ensures(!(__CPROVER_return_value && ghost_len < name->size) || name->data[ghost_len] == self->buffer_->data_[__CPROVER_old(self->buffer_->pos_) + 1 + (int64_t)ghost_len])
__CPROVER_assigns(self->buffer_->pos_, name->size, __CPROVER_object_whole(name->data));

/* DecodeEntry on arbitrary bytes (C02/C18): memory safe, the value buffer is never larger than the remaining input, an entry is added only on success */
bool MetadataDecoder_DecodeEntry(struct MetadataDecoder *self, struct MetadataGhost *metadata)
__CPROVER_requires(MDEC_FRESH(self) && __CPROVER_is_fresh(metadata, sizeof(struct MetadataGhost)) && self->remaining_at_entry == self->buffer_->data_size_ - self->buffer_->pos_)
__CPROVER_ensures(DB_INV(self->buffer_) && self->buffer_->pos_ >= __CPROVER_old(self->buffer_->pos_))
__CPROVER_ensures(metadata->entries_added == __CPROVER_old(metadata->entries_added) + (__CPROVER_return_value ? 1 : 0))
__CPROVER_assigns(self->buffer_->pos_, metadata->last_name, metadata->last_value, metadata->entries_added);

#ifdef VERIF_CBMC
/* bodies of the stand-ins, used only where a job does NOT replace them by their contracts (the bounded, fully inlined lemmas) */
char meta_last_name[2]; uint8_t meta_last_value[4]; size_t meta_last_name_size, meta_last_value_size;
void cstr_resize(struct cstr *s, size_t n) { __CPROVER_assert(n <= s->cap, "stub: string model capacity"); s->size = n; }
void cstr_construct(struct MetadataDecoder *self, struct cstr *s) { s->data = (char *)self->name_store; s->size = 0; s->cap = 255; }
void cbytes_construct(struct MetadataDecoder *self, struct cbytes *v, uint32_t n) { __CPROVER_assert(n <= self->value_store_cap, "stub: value model capacity"); v->data = self->value_store; v->size = n; for (uint32_t i = 0; i < n; ++i) v->data[i] = 0; }
void Metadata_AddEntryBinary(struct MetadataGhost *m, const struct cstr *name, const struct cbytes *value) {
  m->last_name = name; m->last_value = value; m->entries_added++;
  meta_last_name_size = name->size; meta_last_value_size = value->size;
  for (int i = 0; i < 2; ++i) if ((size_t)i < name->size) meta_last_name[i] = name->data[i];
  for (int i = 0; i < 4; ++i) if ((size_t)i < value->size) meta_last_value[i] = value->data[i];
}
#include "core_helpers.h"
#include "core_slice.c"
#include "meta_slice.c"
#endif

/* ------------------------------------------------------------------ harnesses */
#ifdef VERIF_CBMC
void h_enf_MetadataEncoder_EncodeString(void) { GHOSTS(); struct EncoderBuffer *b; const struct cstr *s; MetadataEncoder_EncodeString(b, s); HARNESS_END(); }
void h_enf_MetadataDecoder_DecodeName(void) { GHOSTS(); struct MetadataDecoder *d; struct cstr *n; MetadataDecoder_DecodeName(d, n); HARNESS_END(); }
void h_enf_MetadataDecoder_DecodeEntry(void) { GHOSTS(); struct MetadataDecoder *d; struct MetadataGhost *m; MetadataDecoder_DecodeEntry(d, m); HARNESS_END(); }

/* meta.name (C11): over the two contracts, for EVERY name of EVERY length and any buffer prefix: either the encoder refuses (len > 255)
 * and writes nothing, or the decoder returns the same length and the same bytes and consumes exactly what was produced. */
void h_meta_name(void) {
  GHOSTS();
  size_t cap, size0, len; __CPROVER_assume(cap <= ((size_t)1 << 22) && size0 <= cap && len <= NAME_MAX_ENC && cap - size0 >= 1 + len && ghost_len2 < cap);
  char *store = malloc(cap); __CPROVER_assume(store != 0);
  char *sdata = malloc(len ? len : 1); __CPROVER_assume(sdata != 0);
  struct cstr str; str.data = sdata; str.size = len; str.cap = len;
  struct EncoderBuffer eb; eb.buffer_.data = store; eb.buffer_.size = size0; eb.buffer_.cap = cap; eb.bit_encoder_ = 0; eb.bit_encoder_reserved_bytes_ = 0; eb.encode_bit_sequence_size_ = false;
  __CPROVER_assume(ghost_len2 == size0);   /* instantiate the frame/length-byte clause at the position of the length byte */
  bool eok = MetadataEncoder_EncodeString(&eb, &str);
  __CPROVER_assert(eok == (len <= 255), "meta.name.encoder_refuses_exactly_names_over_255");
  __CPROVER_assert(eok || eb.buffer_.size == size0, "meta.name.refusal_writes_nothing");
  if (eok) {
    struct DecoderBuffer db; db.data_ = store; db.data_size_ = (int64_t)eb.buffer_.size; db.pos_ = (int64_t)size0; db.bit_mode_ = false; db.bitstream_version_ = 0;
    struct MetadataDecoder md; md.buffer_ = &db; md.remaining_at_entry = db.data_size_ - db.pos_;
    char *ndata = malloc(255); __CPROVER_assume(ndata != 0);
    struct cstr name; name.data = ndata; name.size = 0; name.cap = 255;
    bool dok = MetadataDecoder_DecodeName(&md, &name);
    __CPROVER_assert(dok, "meta.name.decoder_accepts");
    __CPROVER_assert(name.size == len, "meta.name.same_length");
    __CPROVER_assert(ghost_len >= len || name.data[ghost_len] == sdata[ghost_len], "meta.name.same_bytes");
    __CPROVER_assert(db.pos_ == (int64_t)eb.buffer_.size, "meta.name.consumed_eq_produced");
  }
  HARNESS_END();
}

/* failure propagation (C11: "... or the encoder reports failure; it is never silently altered or made undecodable"): whenever a nested
 * encoder reports failure, the enclosing encoder reports failure.  Everything inlined; names of <= 2 bytes; 64-byte vector model. */
static struct EncoderBuffer mk_eb(char *store, size_t cap, size_t size0) { struct EncoderBuffer eb; eb.buffer_.data = store; eb.buffer_.size = size0; eb.buffer_.cap = cap; eb.bit_encoder_ = 0; eb.bit_encoder_reserved_bytes_ = 0; eb.encode_bit_sequence_size_ = false; return eb; }
void h_meta_propagate(void) {
  GHOSTS();
  char store[64]; char sdata[2]; size_t len; int which; __CPROVER_assume(len <= 2);
  struct cstr str; str.data = sdata; str.size = len; str.cap = 2;
  struct EncoderBuffer eb = mk_eb(store, 64, 3);
  meta_any_nested_failed = false; int obj;
  bool r;
  if (which == 0) r = MetadataEncoder_EncodeSubMetadataBody(&eb, &str, &obj);
  else if (which == 1) r = MetadataEncoder_EncodeAttributeMetadata(&eb, &obj);
  else r = MetadataEncoder_EncodeGeometryMetadataTail(&eb, &obj, &obj);
  __CPROVER_assert(!(r && meta_any_nested_failed), "meta.propagate.nested_failure_is_reported");
  HARNESS_END();
}

/* meta.entry (BOUNDED stand-in: name <= 2 bytes, value <= 4 bytes, 64-byte vector model; everything inlined):
 * an entry written by the encoder's entry loop body is accepted by DecodeEntry and yields the same name and value bytes, INCLUDING
 * the empty value; the decoder consumes exactly what was produced. */
void h_meta_entry(void) {
  GHOSTS();
  char store[64]; for (int i = 0; i < 64; ++i) store[i] = 0x55;
  char ndata[2]; uint8_t vdata[4]; size_t nlen, vlen; __CPROVER_assume(nlen <= 2 && vlen <= 4);
  struct cstr name; name.data = ndata; name.size = nlen; name.cap = 2;
  struct cbytes val; val.data = vdata; val.size = vlen;
  struct EncoderBuffer eb = mk_eb(store, 64, 0);
  bool eok = MetadataEncoder_EncodeEntryBody(&eb, &name, &val);
  __CPROVER_assert(eok, "meta.entry.encoder_accepts");
  struct DecoderBuffer db; db.data_ = store; db.data_size_ = (int64_t)eb.buffer_.size; db.pos_ = 0; db.bit_mode_ = false; db.bitstream_version_ = DRACO_BITSTREAM_VERSION(2, 2);
  uint8_t nstore[255]; uint8_t vstore[8];
  struct MetadataDecoder md; md.buffer_ = &db; md.remaining_at_entry = db.data_size_; md.name_store = nstore; md.value_store = vstore; md.value_store_cap = 8;
  struct MetadataGhost mg; mg.last_name = 0; mg.last_value = 0; mg.entries_added = 0;
  bool dok = MetadataDecoder_DecodeEntry(&md, &mg);
  __CPROVER_assert(dok, "meta.entry.decoder_accepts_what_the_encoder_wrote");
  __CPROVER_assert(!dok || db.pos_ == (int64_t)eb.buffer_.size, "meta.entry.consumed_eq_produced");
  __CPROVER_assert(!dok || (mg.entries_added == 1 && meta_last_name_size == nlen && meta_last_value_size == vlen), "meta.entry.same_lengths");
  for (int i = 0; i < 2; ++i) __CPROVER_assert(!dok || (size_t)i >= nlen || meta_last_name[i] == ndata[i], "meta.entry.same_name_bytes");
  for (int i = 0; i < 4; ++i) __CPROVER_assert(!dok || (size_t)i >= vlen || meta_last_value[i] == vdata[i], "meta.entry.same_value_bytes");
  HARNESS_END();
}
#endif
