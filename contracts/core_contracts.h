#ifndef CORE_CONTRACTS_H
#define CORE_CONTRACTS_H
/* Contract declarations and spec macros of unit 'core' (shared with units that call into it).
 * Contracts and lemmas for unit 'core' (zig-zag, varint, DecoderBuffer, EncoderBuffer).
 * The function bodies are NOT here: they are sliced from /repo on every run into gen/core.c. */
#include "verif.h"
#include "vec.h"
#include "core_types.h"

/* ------------------------------------------------------------------ specs (pure macros) */
#define ZZ_S2U(UT, v) ((v) >= 0 ? (UT)(((UT)(v)) << 1) : (UT)((((UT)(-((v) + 1))) << 1) | 1))
#define ZZ_U2S(ST, UT, u) ((((u) & 1) == 0) ? (ST)((UT)(u) >> 1) : (ST)(-(ST)((UT)(u) >> 1) - 1))
#define ZZ_S2U32(v) ZZ_S2U(uint32_t, v)
#define ZZ_U2S32(u) ZZ_U2S(int32_t, uint32_t, u)
int ghost_k; /* ghost index: universally quantified by being unconstrained (havocked by GHOSTS() at the start of every harness:
                 file-scope objects are zero-initialised in C, so this must be explicit) */

#define LE16(p) ((uint16_t)((uint16_t)(uint8_t)(p)[0] | ((uint16_t)(uint8_t)(p)[1] << 8)))
#define LE32(p) ((uint32_t)(uint8_t)(p)[0] | ((uint32_t)(uint8_t)(p)[1] << 8) | ((uint32_t)(uint8_t)(p)[2] << 16) | ((uint32_t)(uint8_t)(p)[3] << 24))
#define LE64(p) ((uint64_t)LE32(p) | ((uint64_t)LE32((p) + 4) << 32))

/* Representation invariant of DecoderBuffer as every decoder entry point establishes it
 * (Init(data,size): pos_=0) and every function under contract preserves it. */
#define DB_MAX ((int64_t)1 << 40)
#define DB_INV(b) (0 <= (b)->data_size_ && (b)->data_size_ <= DB_MAX && 0 <= (b)->pos_ && (b)->pos_ <= (b)->data_size_)
#define DB_FRESH(b) (__CPROVER_is_fresh(b, sizeof(struct DecoderBuffer)) && DB_INV(b) && __CPROVER_is_fresh((b)->data_, (b)->data_size_))

/* ------------------------------------------------------------------ bit utilities */
int MostSignificantBit(uint32_t n)
__CPROVER_requires(n != 0)
__CPROVER_ensures(0 <= __CPROVER_return_value && __CPROVER_return_value <= 31 && (n >> __CPROVER_return_value) == 1)
__CPROVER_assigns();
static inline int spec_popcount32(uint32_t n) { int c = 0; for (int i = 0; i < 32; ++i) c += (n >> i) & 1; return c; }
int CountOneBits32(uint32_t n) __CPROVER_ensures(__CPROVER_return_value == spec_popcount32(n)) __CPROVER_assigns();
extern uint32_t ghost_bit;
uint32_t ReverseBits32(uint32_t n)
__CPROVER_ensures(ghost_bit >= 32 || ((__CPROVER_return_value >> ghost_bit) & 1) == ((n >> (31 - ghost_bit)) & 1))
__CPROVER_assigns();
void CopyBits32(uint32_t *dst, int dst_offset, uint32_t src, int src_offset, int nbits)
__CPROVER_requires(__CPROVER_is_fresh(dst, 4) && nbits >= 1 && nbits <= 32 && dst_offset >= 0 && dst_offset <= 31 && src_offset >= 0 && src_offset <= 31 && dst_offset + nbits <= 32 && src_offset + nbits <= 32)
__CPROVER_ensures(ghost_bit >= 32 || ((*dst >> ghost_bit) & 1) == ((ghost_bit >= (uint32_t)dst_offset && ghost_bit < (uint32_t)(dst_offset + nbits)) ? ((src >> (ghost_bit - dst_offset + src_offset)) & 1) : ((__CPROVER_old(*dst) >> ghost_bit) & 1)))
__CPROVER_assigns(*dst);

/* ------------------------------------------------------------------ zig-zag contracts */
#define ZZ_CONTRACTS(W, ST, UT) \
  UT S2U_i##W(ST val) __CPROVER_ensures(__CPROVER_return_value == ZZ_S2U(UT, val)) __CPROVER_assigns(); \
  ST U2S_u##W(UT val) __CPROVER_ensures(__CPROVER_return_value == ZZ_U2S(ST, UT, val)) __CPROVER_assigns();
ZZ_CONTRACTS(8, int8_t, uint8_t)
ZZ_CONTRACTS(16, int16_t, uint16_t)
ZZ_CONTRACTS(32, int32_t, uint32_t)
ZZ_CONTRACTS(64, int64_t, uint64_t)

void ConvertSignedIntsToSymbols(const int32_t *in, int in_values, uint32_t *out)
__CPROVER_requires(in_values >= 0 && __CPROVER_is_fresh(in, (size_t)in_values * 4) && __CPROVER_is_fresh(out, (size_t)in_values * 4))
__CPROVER_ensures(ghost_k < 0 || ghost_k >= in_values || out[ghost_k] == ZZ_S2U32(in[ghost_k]))
__CPROVER_assigns(__CPROVER_object_whole(out));
void ConvertSymbolsToSignedInts(const uint32_t *in, int in_values, int32_t *out)
__CPROVER_requires(in_values >= 0 && __CPROVER_is_fresh(in, (size_t)in_values * 4) && __CPROVER_is_fresh(out, (size_t)in_values * 4))
__CPROVER_ensures(ghost_k < 0 || ghost_k >= in_values || out[ghost_k] == ZZ_U2S32(in[ghost_k]))
__CPROVER_assigns(__CPROVER_object_whole(out));

/* ------------------------------------------------------------------ DecoderBuffer scalar reads */
#define VAL_u8(p) ((uint8_t)(p)[0])
#define VAL_u16(p) LE16(p)
#define VAL_u32(p) LE32(p)
#define VAL_u64(p) LE64(p)
#define VAL_i8(p) ((int8_t)(uint8_t)(p)[0])
#define VAL_i16(p) ((int16_t)LE16(p))
#define VAL_i32(p) ((int32_t)LE32(p))
#define VAL_i64(p) ((int64_t)LE64(p))
#define DB_SCALAR_CONTRACTS(SFX, T) \
  bool DecoderBuffer_Peek_##SFX(struct DecoderBuffer *self, T *out_val) \
  __CPROVER_requires(DB_FRESH(self) && __CPROVER_is_fresh(out_val, sizeof(T))) \
  __CPROVER_ensures(__CPROVER_return_value == (self->pos_ + (int64_t)sizeof(T) <= self->data_size_)) \
  __CPROVER_ensures(__CPROVER_return_value ==> *out_val == VAL_##SFX(self->data_ + self->pos_)) \
  __CPROVER_ensures(!__CPROVER_return_value ==> *out_val == __CPROVER_old(*out_val)) \
  __CPROVER_assigns(*out_val); \
  bool DecoderBuffer_Decode_##SFX(struct DecoderBuffer *self, T *out_val) \
  __CPROVER_requires(DB_FRESH(self) && __CPROVER_is_fresh(out_val, sizeof(T))) \
  __CPROVER_ensures(__CPROVER_return_value == (__CPROVER_old(self->pos_) + (int64_t)sizeof(T) <= self->data_size_)) \
  __CPROVER_ensures(__CPROVER_return_value ==> (self->pos_ == __CPROVER_old(self->pos_) + (int64_t)sizeof(T) && *out_val == VAL_##SFX(self->data_ + __CPROVER_old(self->pos_)))) \
  __CPROVER_ensures(!__CPROVER_return_value ==> (self->pos_ == __CPROVER_old(self->pos_) && *out_val == __CPROVER_old(*out_val))) \
  __CPROVER_ensures(DB_INV(self)) \
  __CPROVER_assigns(self->pos_, *out_val);
DB_SCALAR_CONTRACTS(u8, uint8_t)
DB_SCALAR_CONTRACTS(u16, uint16_t)
DB_SCALAR_CONTRACTS(u32, uint32_t)
DB_SCALAR_CONTRACTS(u64, uint64_t)
DB_SCALAR_CONTRACTS(i8, int8_t)
DB_SCALAR_CONTRACTS(i16, int16_t)
DB_SCALAR_CONTRACTS(i32, int32_t)
DB_SCALAR_CONTRACTS(i64, int64_t)

int64_t DecoderBuffer_remaining_size(const struct DecoderBuffer *self)
__CPROVER_requires(DB_INV(self))
__CPROVER_ensures(__CPROVER_return_value == self->data_size_ - self->pos_) __CPROVER_assigns();
const char *DecoderBuffer_data_head(const struct DecoderBuffer *self)
__CPROVER_requires(DB_INV(self))
__CPROVER_ensures(__CPROVER_return_value == self->data_ + self->pos_) __CPROVER_assigns();
bool DecoderBuffer_bit_decoder_active(const struct DecoderBuffer *self) __CPROVER_ensures(__CPROVER_return_value == self->bit_mode_) __CPROVER_assigns();
void DecoderBuffer_Advance(struct DecoderBuffer *self, int64_t bytes)
__CPROVER_requires(DB_INV(self) && bytes >= 0 && bytes <= self->data_size_ - self->pos_)
__CPROVER_ensures(self->pos_ == __CPROVER_old(self->pos_) + bytes && DB_INV(self)) __CPROVER_assigns(self->pos_);

/* ------------------------------------------------------------------ varint decoding
 * VARINT_MAXLEN is the ABSOLUTE bound ceil(bits/7) of the format (2,3,5,10), not the code's formula. */
#define VARINT_MAXLEN_8 2
#define VARINT_MAXLEN_16 3
#define VARINT_MAXLEN_32 5
#define VARINT_MAXLEN_64 10
/* Recursive calls are emitted by the slicer as RECURSE(f)(...).  Under -DINDUCTIVE the recursive call goes to a
 * body-less twin f_rec carrying the same contract, so enforcing f's contract is the induction step
 * (the callee is assumed to satisfy the contract for depth+1).  Otherwise RECURSE(f) is f itself. */
#ifdef INDUCTIVE
#define RECURSE(f) f##_rec
#else
#define RECURSE(f) f
#endif
#define DVU_CONTRACT(W, UT) DVU_CONTRACT_(DecodeVarintUnsigned_u##W, W, UT) DVU_CONTRACT_(DecodeVarintUnsigned_u##W##_rec, W, UT)
#define DVU_CONTRACT_(NAME, W, UT) \
  bool NAME(int depth, UT *out_val, struct DecoderBuffer *buffer) \
  __CPROVER_requires(DB_FRESH(buffer) && __CPROVER_is_fresh(out_val, sizeof(UT)) && depth >= 1) \
  __CPROVER_ensures(DB_INV(buffer) && buffer->pos_ >= __CPROVER_old(buffer->pos_)) \
  __CPROVER_ensures(buffer->pos_ - __CPROVER_old(buffer->pos_) <= (depth <= VARINT_MAXLEN_##W ? VARINT_MAXLEN_##W - depth + 1 : 0)) \
  __CPROVER_ensures(__CPROVER_return_value ==> buffer->pos_ > __CPROVER_old(buffer->pos_)) \
  __CPROVER_assigns(buffer->pos_, *out_val);
DVU_CONTRACT(8, uint8_t)
DVU_CONTRACT(16, uint16_t)
DVU_CONTRACT(32, uint32_t)
DVU_CONTRACT(64, uint64_t)
#define DV_CONTRACT(SFX, T, W) \
  bool DecodeVarint_##SFX(T *out_val, struct DecoderBuffer *buffer) \
  __CPROVER_requires(DB_FRESH(buffer) && __CPROVER_is_fresh(out_val, sizeof(T))) \
  __CPROVER_ensures(DB_INV(buffer) && buffer->pos_ >= __CPROVER_old(buffer->pos_)) \
  __CPROVER_ensures(buffer->pos_ - __CPROVER_old(buffer->pos_) <= VARINT_MAXLEN_##W) \
  __CPROVER_ensures(__CPROVER_return_value ==> buffer->pos_ > __CPROVER_old(buffer->pos_)) \
  __CPROVER_assigns(buffer->pos_, *out_val);
DV_CONTRACT(u8, uint8_t, 8)
DV_CONTRACT(u16, uint16_t, 16)
DV_CONTRACT(u32, uint32_t, 32)
DV_CONTRACT(u64, uint64_t, 64)
DV_CONTRACT(i8, int8_t, 8)
DV_CONTRACT(i16, int16_t, 16)
DV_CONTRACT(i32, int32_t, 32)
DV_CONTRACT(i64, int64_t, 64)

/* ------------------------------------------------------------------ BitDecoder
 * ghost_len: length in bytes of the bit buffer (bit_buffer_end_ - bit_buffer_), universally quantified. */
size_t ghost_len;
size_t ghost_len2; /* second ghost byte index (prefix/frame statements) */
uint32_t ghost_bit; /* ghost bit index */
#define BD_MAXLEN ((size_t)1 << 40)
#ifdef VERIF_CBMC
int nondet_int(void); size_t nondet_size_t(void); uint32_t nondet_u32(void);
#define GHOSTS() do { ghost_k = nondet_int(); ghost_len = nondet_size_t(); ghost_len2 = nondet_size_t(); ghost_bit = nondet_u32(); } while (0)
#else
#define GHOSTS() ((void)0)
#endif
#define BD_FRESH(d) (__CPROVER_is_fresh(d, sizeof(struct BitDecoder)) && BD_STATE(d))
#define BD_STATE(d) (ghost_len <= BD_MAXLEN && __CPROVER_is_fresh((d)->bit_buffer_, ghost_len) && __CPROVER_pointer_equals((d)->bit_buffer_end_, (d)->bit_buffer_ + ghost_len) && (d)->bit_offset_ <= 8 * ghost_len)
#define BD_MIN(a, b) ((a) < (b) ? (a) : (b))
#define BD_AVAIL(off) ((off) >= 8 * ghost_len ? (size_t)0 : 8 * ghost_len - (off))
/* value of stream bit number k (0 beyond the end) */
#define BD_BIT(d, k) (((k) >> 3) < ghost_len ? (((d)->bit_buffer_[(k) >> 3] >> ((k) & 7)) & 1) : 0)
int BitDecoder_GetBit(struct BitDecoder *self)
__CPROVER_requires(BD_FRESH(self))
__CPROVER_ensures(__CPROVER_return_value == BD_BIT(self, __CPROVER_old(self->bit_offset_)))
__CPROVER_ensures(self->bit_offset_ == __CPROVER_old(self->bit_offset_) + ((__CPROVER_old(self->bit_offset_) >> 3) < ghost_len ? 1 : 0))
__CPROVER_assigns(self->bit_offset_);
int BitDecoder_PeekBit(struct BitDecoder *self, int offset)
__CPROVER_requires(BD_FRESH(self) && offset >= 0 && self->bit_offset_ + (size_t)offset <= 8 * ghost_len)
__CPROVER_ensures(__CPROVER_return_value == BD_BIT(self, self->bit_offset_ + (size_t)offset))
__CPROVER_assigns();
bool BitDecoder_GetBits(struct BitDecoder *self, uint32_t nbits, uint32_t *x)
__CPROVER_requires(BD_FRESH(self) && __CPROVER_is_fresh(x, 4))
__CPROVER_ensures(__CPROVER_return_value == (nbits <= 32))
__CPROVER_ensures(!__CPROVER_return_value ==> (*x == __CPROVER_old(*x) && self->bit_offset_ == __CPROVER_old(self->bit_offset_)))
__CPROVER_ensures((__CPROVER_return_value && ghost_bit < nbits) ==> ((*x >> ghost_bit) & 1) == BD_BIT(self, __CPROVER_old(self->bit_offset_) + ghost_bit))
__CPROVER_ensures((__CPROVER_return_value && ghost_bit >= nbits && ghost_bit < 32) ==> ((*x >> ghost_bit) & 1) == 0)
__CPROVER_ensures(__CPROVER_return_value ==> self->bit_offset_ == __CPROVER_old(self->bit_offset_) + BD_MIN((size_t)nbits, BD_AVAIL(__CPROVER_old(self->bit_offset_))))
__CPROVER_assigns(self->bit_offset_, *x);
uint64_t BitDecoder_AvailBits(const struct BitDecoder *self)
__CPROVER_requires(BD_FRESH(self))
__CPROVER_ensures(__CPROVER_return_value == (uint64_t)(8 * ghost_len) - (uint64_t)self->bit_offset_)
__CPROVER_assigns();
uint64_t BitDecoder_BitsDecoded(const struct BitDecoder *self)
__CPROVER_requires(__CPROVER_is_fresh(self, sizeof(struct BitDecoder)))
__CPROVER_ensures(__CPROVER_return_value == (uint64_t)self->bit_offset_)
__CPROVER_assigns();
void BitDecoder_reset(struct BitDecoder *self, const void *b, size_t s)
__CPROVER_requires(__CPROVER_is_fresh(self, sizeof(struct BitDecoder)) && s <= BD_MAXLEN && __CPROVER_is_fresh(b, s))
__CPROVER_ensures(self->bit_offset_ == 0 && self->bit_buffer_ == (const uint8_t *)b && self->bit_buffer_end_ == (const uint8_t *)b + s)
__CPROVER_assigns(self->bit_offset_, self->bit_buffer_, self->bit_buffer_end_);
uint32_t BitDecoder_EnsureBits(struct BitDecoder *self, int k)
__CPROVER_requires(BD_FRESH(self) && 0 <= k && k <= 24 && (uint64_t)k <= 8 * ghost_len - self->bit_offset_)
__CPROVER_ensures(ghost_bit < (uint32_t)k ==> ((__CPROVER_return_value >> ghost_bit) & 1) == BD_BIT(self, self->bit_offset_ + ghost_bit))
__CPROVER_assigns();

/* ------------------------------------------------------------------ DecoderBuffer byte blocks and bit mode */
bool DecoderBuffer_DecodeBytes(struct DecoderBuffer *self, void *out_data, size_t size_to_decode)
__CPROVER_requires(DB_FRESH(self) && size_to_decode <= ((size_t)1 << 40) && __CPROVER_is_fresh(out_data, size_to_decode))
__CPROVER_ensures(__CPROVER_return_value == (__CPROVER_old(self->pos_) + (int64_t)size_to_decode <= self->data_size_))
__CPROVER_ensures(__CPROVER_return_value ==> self->pos_ == __CPROVER_old(self->pos_) + (int64_t)size_to_decode)
__CPROVER_ensures(!__CPROVER_return_value ==> self->pos_ == __CPROVER_old(self->pos_))
__CPROVER_ensures((__CPROVER_return_value && ghost_len < size_to_decode) ==> ((const char *)out_data)[ghost_len] == self->data_[__CPROVER_old(self->pos_) + (int64_t)ghost_len])
__CPROVER_ensures(DB_INV(self))
__CPROVER_assigns(self->pos_, __CPROVER_object_whole(out_data));
bool DecoderBuffer_PeekBytes(struct DecoderBuffer *self, void *out_data, size_t size_to_peek)
__CPROVER_requires(DB_FRESH(self) && size_to_peek <= ((size_t)1 << 40) && __CPROVER_is_fresh(out_data, size_to_peek))
__CPROVER_ensures(__CPROVER_return_value == (self->pos_ + (int64_t)size_to_peek <= self->data_size_))
__CPROVER_ensures((__CPROVER_return_value && ghost_len < size_to_peek) ==> ((const char *)out_data)[ghost_len] == self->data_[self->pos_ + (int64_t)ghost_len])
__CPROVER_assigns(__CPROVER_object_whole(out_data));
bool DecoderBuffer_StartBitDecoding(struct DecoderBuffer *self, bool decode_size, uint64_t *out_size)
__CPROVER_requires(DB_FRESH(self) && __CPROVER_is_fresh(out_size, 8))
__CPROVER_ensures(DB_INV(self) && self->pos_ >= __CPROVER_old(self->pos_) && self->pos_ - __CPROVER_old(self->pos_) <= (decode_size ? 10 : 0))
__CPROVER_ensures(!decode_size ==> (__CPROVER_return_value && *out_size == __CPROVER_old(*out_size)))
__CPROVER_ensures(__CPROVER_return_value ==> (self->bit_mode_ && self->bit_decoder_.bit_offset_ == 0 && \
    self->bit_decoder_.bit_buffer_ == (const uint8_t *)(self->data_ + self->pos_) && self->bit_decoder_.bit_buffer_end_ == (const uint8_t *)(self->data_ + self->data_size_)))
__CPROVER_ensures(!__CPROVER_return_value ==> self->bit_mode_ == __CPROVER_old(self->bit_mode_))
__CPROVER_assigns(self->pos_, *out_size, self->bit_mode_, self->bit_decoder_);
void DecoderBuffer_EndBitDecoding(struct DecoderBuffer *self)
__CPROVER_requires(DB_FRESH(self) && self->bit_decoder_.bit_offset_ <= 8 * (size_t)(self->data_size_ - self->pos_))
__CPROVER_ensures(!self->bit_mode_ && self->pos_ == __CPROVER_old(self->pos_) + (int64_t)((self->bit_decoder_.bit_offset_ + 7) / 8) && DB_INV(self))
__CPROVER_assigns(self->pos_, self->bit_mode_);
bool DecoderBuffer_DecodeLeastSignificantBits32(struct DecoderBuffer *self, uint32_t nbits, uint32_t *out_value)
__CPROVER_requires(__CPROVER_is_fresh(self, sizeof(struct DecoderBuffer)) && BD_STATE(&self->bit_decoder_) && __CPROVER_is_fresh(out_value, 4))
__CPROVER_ensures(__CPROVER_return_value == (self->bit_mode_ && nbits <= 32))
__CPROVER_ensures(!__CPROVER_return_value ==> (*out_value == __CPROVER_old(*out_value) && self->bit_decoder_.bit_offset_ == __CPROVER_old(self->bit_decoder_.bit_offset_)))
__CPROVER_ensures((__CPROVER_return_value && ghost_bit < nbits) ==> ((*out_value >> ghost_bit) & 1) == BD_BIT(&self->bit_decoder_, __CPROVER_old(self->bit_decoder_.bit_offset_) + ghost_bit))
__CPROVER_ensures((__CPROVER_return_value && ghost_bit >= nbits && ghost_bit < 32) ==> ((*out_value >> ghost_bit) & 1) == 0)
__CPROVER_assigns(self->bit_decoder_.bit_offset_, *out_value);

/* ------------------------------------------------------------------ EncoderBuffer (byte mode) over the vector model */
#define EB_CAPMAX 64
#define EB_FRESH(e) (__CPROVER_is_fresh(e, sizeof(struct EncoderBuffer)) && (e)->buffer_.cap <= EB_CAPMAX && (e)->buffer_.size <= (e)->buffer_.cap && \
                     __CPROVER_is_fresh((e)->buffer_.data, (e)->buffer_.cap))
#define EB_SCALAR_CONTRACT(SFX, T) \
  bool EncoderBuffer_Encode_##SFX(struct EncoderBuffer *self, const T *data) \
  __CPROVER_requires(EB_FRESHN(self) && sizeof(T) <= self->buffer_.cap - self->buffer_.size && __CPROVER_is_fresh(data, sizeof(T)) && ghost_len2 < self->buffer_.cap) \
  __CPROVER_ensures(__CPROVER_return_value == !(self->bit_encoder_reserved_bytes_ > 0)) \
  __CPROVER_ensures(__CPROVER_return_value ==> (self->buffer_.size == __CPROVER_old(self->buffer_.size) + sizeof(T) && VAL_##SFX(self->buffer_.data + __CPROVER_old(self->buffer_.size)) == *data)) \
  __CPROVER_ensures(!__CPROVER_return_value ==> self->buffer_.size == __CPROVER_old(self->buffer_.size)) \
  __CPROVER_ensures(ghost_len2 >= __CPROVER_old(self->buffer_.size) || self->buffer_.data[ghost_len2] == __CPROVER_old(self->buffer_.data[ghost_len2])) \
  __CPROVER_assigns(self->buffer_.size, __CPROVER_object_whole(self->buffer_.data));
/* byte blocks of any length (vector model of any capacity up to 2^33) */
#define EB_CAPMAXN ((size_t)1 << 33)
#define EB_FRESHN(e) (__CPROVER_is_fresh(e, sizeof(struct EncoderBuffer)) && (e)->buffer_.cap <= EB_CAPMAXN && (e)->buffer_.size <= (e)->buffer_.cap && \
                      __CPROVER_is_fresh((e)->buffer_.data, (e)->buffer_.cap))
bool EncoderBuffer_EncodeBytes(struct EncoderBuffer *self, const void *data, size_t data_size)
__CPROVER_requires(EB_FRESHN(self) && data_size <= self->buffer_.cap - self->buffer_.size && (data_size == 0 || __CPROVER_is_fresh(data, data_size)))
__CPROVER_requires(ghost_len2 < self->buffer_.cap)
__CPROVER_ensures(__CPROVER_return_value == !(self->bit_encoder_reserved_bytes_ > 0))
__CPROVER_ensures(__CPROVER_return_value ==> self->buffer_.size == __CPROVER_old(self->buffer_.size) + data_size)
__CPROVER_ensures(!__CPROVER_return_value ==> self->buffer_.size == __CPROVER_old(self->buffer_.size))
__CPROVER_ensures((__CPROVER_return_value && ghost_len < data_size) ==> self->buffer_.data[__CPROVER_old(self->buffer_.size) + ghost_len] == ((const char *)data)[ghost_len])
__CPROVER_ensures(ghost_len2 >= __CPROVER_old(self->buffer_.size) || self->buffer_.data[ghost_len2] == __CPROVER_old(self->buffer_.data[ghost_len2]))
__CPROVER_assigns(self->buffer_.size, __CPROVER_object_whole(self->buffer_.data));
EB_SCALAR_CONTRACT(u8, uint8_t)
EB_SCALAR_CONTRACT(u16, uint16_t)
EB_SCALAR_CONTRACT(u32, uint32_t)
EB_SCALAR_CONTRACT(u64, uint64_t)
EB_SCALAR_CONTRACT(i8, int8_t)
EB_SCALAR_CONTRACT(i16, int16_t)
EB_SCALAR_CONTRACT(i32, int32_t)
EB_SCALAR_CONTRACT(i64, int64_t)


#endif
