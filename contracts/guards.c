/* Unit 'guards' (C18/C02): count plausibility guards in front of allocations. Bodies (statement regions) sliced into guards_slice.c. */
#include "core_contracts.h"
#include "guards_types.h"

/* C18 is stated HERE: a side table of n elements of `elem` bytes may be allocated only if n <= 5 * remaining input (the bound the code documents) */
void alloc_table(struct GuardCtx *self, uint64_t n, uint64_t elem)
__CPROVER_requires(n >= 1 && n <= 5 * (uint64_t)self->remaining_at_entry)
__CPROVER_assigns();

bool AttributesDecoder_Prologue(struct GuardCtx *self, struct DecoderBuffer *in_buffer)
__CPROVER_requires(__CPROVER_is_fresh(self, sizeof(struct GuardCtx)) && DB_FRESH(in_buffer) && self->remaining_at_entry == in_buffer->data_size_ - in_buffer->pos_)
__CPROVER_ensures(DB_INV(in_buffer) && in_buffer->pos_ >= __CPROVER_old(in_buffer->pos_) && in_buffer->pos_ <= __CPROVER_old(in_buffer->pos_) + 5)
__CPROVER_assigns(in_buffer->pos_);

/* Edgebreaker header: falling through the guards establishes the relations between the declared counts that size everything that follows */
bool Edgebreaker_Header(struct GuardCtx *self)
__CPROVER_requires(__CPROVER_is_fresh(self, sizeof(struct GuardCtx)) && DB_FRESH(self->buffer))
__CPROVER_ensures(DB_INV(self->buffer) && self->buffer->pos_ >= __CPROVER_old(self->buffer->pos_))
__CPROVER_ensures(!__CPROVER_return_value || (self->num_faces <= UINT32_MAX / 3 && (uint64_t)self->num_encoded_vertices <= 3 * (uint64_t)self->num_faces))
__CPROVER_ensures(!__CPROVER_return_value || (self->num_encoded_symbols <= self->num_faces && (uint64_t)self->num_faces <= (uint64_t)self->num_encoded_symbols + self->num_encoded_symbols / 3))
__CPROVER_ensures(!__CPROVER_return_value || self->num_encoded_split_symbols <= self->num_encoded_symbols)
__CPROVER_assigns(self->buffer->pos_, self->num_encoded_vertices_, self->num_faces, self->num_encoded_vertices, self->num_encoded_symbols, self->num_encoded_split_symbols);

/* CreateAttributesDecoder prologue (C03): every attribute connectivity data set, and the position data, is claimed by AT MOST ONE attribute decoder
 * (two decoders sharing one set would share its value counter, and the second attribute's point-to-value map would point past its values);
 * an id outside the table is refused; nothing outside the table is touched. */
bool Edgebreaker_ClaimAttributeData(struct ClaimCtx *self, int32_t att_decoder_id)
__CPROVER_requires(__CPROVER_is_fresh(self, sizeof(struct ClaimCtx)) && DB_FRESH(self->buffer) && self->num_attribute_data <= 127 && att_decoder_id >= 0 && \
                   __CPROVER_is_fresh(self->attribute_data_decoder_id, (self->num_attribute_data ? self->num_attribute_data : 1) * 4) && ghost_len < self->num_attribute_data)
__CPROVER_ensures(DB_INV(self->buffer) && self->buffer->pos_ >= __CPROVER_old(self->buffer->pos_))
__CPROVER_ensures(!(__CPROVER_return_value && __CPROVER_old(self->attribute_data_decoder_id[ghost_len]) >= 0) || self->attribute_data_decoder_id[ghost_len] == __CPROVER_old(self->attribute_data_decoder_id[ghost_len]))
__CPROVER_ensures(!(__CPROVER_return_value && __CPROVER_old(self->pos_data_decoder_id_) >= 0) || self->pos_data_decoder_id_ == __CPROVER_old(self->pos_data_decoder_id_))
__CPROVER_ensures(!__CPROVER_return_value || (self->traversal_method >= 0 && self->traversal_method < NUM_TRAVERSAL_METHODS))
__CPROVER_assigns(self->buffer->pos_, self->pos_data_decoder_id_, self->traversal_method, __CPROVER_object_whole(self->attribute_data_decoder_id));

/* DecodeHoleAndTopologySplitEvents on ARBITRARY bytes (C18/C02): every element appended to the split / hole event tables is paid for by at least one
 * byte of input consumed by this call; a bulk reservation must be justified by the number of faces already decoded or by the remaining input;
 * the number of split events never exceeds the number of faces; edge bits are written only to existing events; the reader only moves forward. */
int ghost_gb_mode; uint32_t ghost_gb_reads;
void tsvec_push(struct EvCtx *self, struct DecoderBuffer *b) __CPROVER_requires(self->ts_size + self->he_size < (size_t)(b->pos_ - self->entry_pos)) __CPROVER_ensures(self->ts_size == __CPROVER_old(self->ts_size) + 1) __CPROVER_assigns(self->ts_size);
void hevec_push(struct EvCtx *self, struct DecoderBuffer *b) __CPROVER_requires(self->ts_size + self->he_size < (size_t)(b->pos_ - self->entry_pos)) __CPROVER_ensures(self->he_size == __CPROVER_old(self->he_size) + 1) __CPROVER_assigns(self->he_size);
void evvec_reserve(struct EvCtx *self, struct DecoderBuffer *b, size_t n) __CPROVER_requires(n <= (size_t)self->ct_num_faces || (int64_t)n <= self->remaining_at_entry) __CPROVER_ensures(1) __CPROVER_assigns();
void ts_set_edge(struct EvCtx *self, uint32_t i, uint32_t edge) __CPROVER_requires((size_t)i < self->ts_size) __CPROVER_ensures(1) __CPROVER_assigns();
void GB_Start(struct DecoderBuffer *b) __CPROVER_requires(ghost_gb_mode == 0) __CPROVER_ensures(ghost_gb_mode == 1) __CPROVER_assigns(ghost_gb_mode);
bool GB_Decode(struct DecoderBuffer *b, uint32_t nbits, uint32_t *v) __CPROVER_requires(ghost_gb_mode == 1 && nbits <= 32) __CPROVER_ensures(ghost_gb_reads == __CPROVER_old(ghost_gb_reads) + 1) __CPROVER_assigns(*v, ghost_gb_reads);
void GB_End(struct DecoderBuffer *b) __CPROVER_requires(ghost_gb_mode == 1 && DB_INV(b)) __CPROVER_ensures(ghost_gb_mode == 0 && DB_INV(b) && b->pos_ >= __CPROVER_old(b->pos_)) __CPROVER_assigns(ghost_gb_mode, b->pos_);
int32_t EB_DecodeHoleAndTopologySplitEvents(struct EvCtx *self, struct DecoderBuffer *decoder_buffer)
__CPROVER_requires(__CPROVER_is_fresh(self, sizeof(struct EvCtx)) && DB_FRESH(decoder_buffer) && decoder_buffer->data_size_ <= ((int64_t)1 << 31) - 1 && self->ts_size == 0 && self->he_size == 0 && self->ct_num_faces >= 0 && \
                   self->entry_pos == decoder_buffer->pos_ && self->remaining_at_entry == decoder_buffer->data_size_ - decoder_buffer->pos_ && ghost_gb_mode == 0)
__CPROVER_ensures(DB_INV(decoder_buffer) && decoder_buffer->pos_ >= __CPROVER_old(decoder_buffer->pos_))
__CPROVER_ensures(__CPROVER_return_value == -1 || (__CPROVER_return_value == (int32_t)decoder_buffer->pos_ && ghost_gb_mode == 0))
__CPROVER_ensures(self->ts_size <= (size_t)self->ct_num_faces && self->ts_size + self->he_size <= (size_t)(decoder_buffer->pos_ - __CPROVER_old(decoder_buffer->pos_)))
__CPROVER_assigns(decoder_buffer->pos_, self->ts_size, self->he_size, ghost_gb_mode, ghost_gb_reads);

/* kd-tree output iterator: a decoded point may only be stored into an attribute value slot that exists (C02/C03).  PointAttribute is a stub:
 * mapped_index returns ANY index (the map is stream controlled for legacy streams), SetAttributeValue requires the slot to exist. */
uint32_t PA_mapped_index(const struct PAStub *a, uint32_t point_id) __CPROVER_ensures(1) __CPROVER_assigns();
uint32_t PA_size(const struct PAStub *a) __CPROVER_ensures(__CPROVER_return_value == a->size) __CPROVER_assigns();
void PA_SetAttributeValue(struct PAStub *a, uint32_t avi, const void *value) __CPROVER_requires(avi < a->size) __CPROVER_assigns();
void KdOutIt_assign_vec3(struct KdOutIt *self, const uint32_t *val)
__CPROVER_requires(__CPROVER_is_fresh(self, sizeof(struct KdOutIt)) && __CPROVER_is_fresh(self->attributes_, sizeof(struct AttTuple)) && __CPROVER_is_fresh(self->attributes_[0].attribute, sizeof(struct PAStub)) && __CPROVER_is_fresh(val, 12) && self->attributes_[0].offset == 0)
__CPROVER_assigns();

#ifdef VERIF_CBMC
#include "guards_slice.c"
void h_enf_KdOutIt_assign_vec3(void) { GHOSTS(); struct KdOutIt *it; const uint32_t *v; KdOutIt_assign_vec3(it, v); HARNESS_END(); }
void h_enf_AttributesDecoder_Prologue(void) { GHOSTS(); struct GuardCtx *c; struct DecoderBuffer *b; AttributesDecoder_Prologue(c, b); HARNESS_END(); }
void h_enf_Edgebreaker_ClaimAttributeData(void) { GHOSTS(); struct ClaimCtx *c; int32_t id; Edgebreaker_ClaimAttributeData(c, id); HARNESS_END(); }
void h_enf_EB_DecodeHoleAndTopologySplitEvents(void) { GHOSTS(); ghost_gb_mode = 0; ghost_gb_reads = 0; struct EvCtx *c; struct DecoderBuffer *b; EB_DecodeHoleAndTopologySplitEvents(c, b); HARNESS_END(); }
void h_enf_Edgebreaker_Header(void) { GHOSTS(); struct GuardCtx *c; Edgebreaker_Header(c); HARNESS_END(); }
#endif
