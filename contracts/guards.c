/* Unit 'guards' (C18/C02): count plausibility guards in front of allocations. Bodies (statement regions) sliced into guards_slice.c. */
#include "core_contracts.h"
#include "guards_types.h"

/* C18 is stated HERE: a side table of n elements of `elem` bytes may be allocated only if n <= 5 * remaining input (the bound the code documents) */
void alloc_table(struct GuardCtx *self, uint64_t n, uint64_t elem)
__CPROVER_requires(n >= 1 && n <= 5 * (uint64_t)self->remaining_at_entry)
__CPROVER_assigns();

bool AttributesDecoder_Prologue(struct GuardCtx *self, struct DecoderBuffer *in_buffer)
__CPROVER_requires(__CPROVER_is_fresh(self, sizeof(struct GuardCtx)) && DB_FRESH(in_buffer) && self->remaining_at_entry == in_buffer->data_size_ - in_buffer->pos_)
__CPROVER_ensures(DB_INV(in_buffer) && in_buffer->pos_ >= __CPROVER_old(in_buffer->pos_) && in_buffer->pos_ <= __CPROVER_old(in_buffer->pos_) + 5)
__CPROVER_assigns(in_buffer->pos_);

/* Edgebreaker header: falling through the guards establishes the relations between the declared counts that size everything that follows */
bool Edgebreaker_Header(struct GuardCtx *self)
__CPROVER_requires(__CPROVER_is_fresh(self, sizeof(struct GuardCtx)) && DB_FRESH(self->buffer))
__CPROVER_ensures(DB_INV(self->buffer) && self->buffer->pos_ >= __CPROVER_old(self->buffer->pos_))
__CPROVER_ensures(!__CPROVER_return_value || (self->num_faces <= UINT32_MAX / 3 && (uint64_t)self->num_encoded_vertices <= 3 * (uint64_t)self->num_faces))
__CPROVER_ensures(!__CPROVER_return_value || (self->num_encoded_symbols <= self->num_faces && (uint64_t)self->num_faces <= (uint64_t)self->num_encoded_symbols + self->num_encoded_symbols / 3))
__CPROVER_ensures(!__CPROVER_return_value || self->num_encoded_split_symbols <= self->num_encoded_symbols)
__CPROVER_assigns(self->buffer->pos_, self->num_encoded_vertices_, self->num_faces, self->num_encoded_vertices, self->num_encoded_symbols, self->num_encoded_split_symbols);

#ifdef VERIF_CBMC
#include "guards_slice.c"
void h_enf_AttributesDecoder_Prologue(void) { GHOSTS(); struct GuardCtx *c; struct DecoderBuffer *b; AttributesDecoder_Prologue(c, b); HARNESS_END(); }
void h_enf_Edgebreaker_Header(void) { GHOSTS(); struct GuardCtx *c; Edgebreaker_Header(c); HARNESS_END(); }
#endif
