/* Unit 'seqmesh' (C03/C18/C02): sequential mesh connectivity decoding. Bodies sliced into seqmesh_slice.c. */
#include "core_contracts.h"
#include "seqmesh_types.h"

#define SEQ_MAX ((int64_t)INT32_MAX - 1)
#define MSD_FRESH(m) (__CPROVER_is_fresh(m, sizeof(struct MSD)) && DB_FRESH((m)->buffer_))
/* ---- stubs standing for the object graph around the function (contracts only, no bodies) ---- */
uint16_t MSD_bitstream_version(const struct MSD *self) __CPROVER_ensures(__CPROVER_return_value == self->version) __CPROVER_assigns();
/* C03 is stated HERE: a face may only be stored if each index refers to an existing point.  `limit` is carried by the caller's loop
 * invariant (max_index_p1 <= num_points); the stub records the largest index + 1 ever stored. */
void Mesh_AddFace(struct MSD *self, const struct Face *f)
__CPROVER_ensures(self->faces_added == __CPROVER_old(self->faces_added) + 1)
__CPROVER_ensures(self->max_index_p1 >= __CPROVER_old(self->max_index_p1) && self->max_index_p1 >= (uint64_t)f->v[0] + 1 && self->max_index_p1 >= (uint64_t)f->v[1] + 1 && self->max_index_p1 >= (uint64_t)f->v[2] + 1)
__CPROVER_ensures(self->max_index_p1 == __CPROVER_old(self->max_index_p1) || self->max_index_p1 == (uint64_t)f->v[0] + 1 || self->max_index_p1 == (uint64_t)f->v[1] + 1 || self->max_index_p1 == (uint64_t)f->v[2] + 1)
__CPROVER_assigns(self->faces_added, self->max_index_p1);
void PointCloud_set_num_points(struct MSD *self, uint32_t n)
__CPROVER_ensures(self->num_points_set == n && self->num_points_was_set)
__CPROVER_assigns(self->num_points_set, self->num_points_was_set);
/* C18 is stated HERE: an array sized by a declared count may be allocated only if the remaining input justifies it. */
uint32_t *alloc_u32_array(struct MSD *self, uint32_t n)
__CPROVER_requires((uint64_t)n * 4 <= 4 * ((uint64_t)self->remaining_at_entry + 1))
__CPROVER_ensures(__CPROVER_is_fresh(__CPROVER_return_value, (size_t)(n ? n : 1) * 4))
__CPROVER_assigns();
bool DecodeSymbols_stub(uint32_t num_values, int num_components, struct DecoderBuffer *src_buffer, uint32_t *out_values)
__CPROVER_requires(DB_INV(src_buffer))
__CPROVER_ensures(DB_INV(src_buffer) && src_buffer->pos_ >= __CPROVER_old(src_buffer->pos_))
__CPROVER_assigns(src_buffer->pos_, __CPROVER_object_whole(out_values));

bool MSD_DecodeAndDecompressIndices(struct MSD *self, uint32_t num_faces, uint32_t num_points)
__CPROVER_requires(MSD_FRESH(self) && num_faces <= 0xffffffffu / 3 && self->faces_added == 0 && self->max_index_p1 == 0)
/* SEQ_MAX: the contract is claimed for streams shorter than 2 GiB.  Beyond that `int vertex_index` (and num_faces*3 > INT_MAX) overflows
 * in the real code: a candidate defect recorded in DESIGN.md 7, not claimed here because no 2 GiB witness stream was constructed. */
__CPROVER_requires(self->remaining_at_entry >= 0 && self->remaining_at_entry <= SEQ_MAX && (uint64_t)num_faces * 3 <= (uint64_t)self->remaining_at_entry + 1)
__CPROVER_ensures(__CPROVER_return_value ==> self->faces_added == __CPROVER_old(self->faces_added) + num_faces)
__CPROVER_ensures(self->max_index_p1 <= (self->faces_added == 0 ? 0 : num_points))
__CPROVER_ensures(DB_INV(self->buffer_))
__CPROVER_assigns(self->buffer_->pos_, self->faces_added, self->max_index_p1);

/* the property's postcondition: success => every stored face index < the number of points announced to the point cloud */
bool MSD_DecodeConnectivity(struct MSD *self)
__CPROVER_requires(MSD_FRESH(self) && self->faces_added == 0 && self->max_index_p1 == 0 && !self->num_points_was_set)
__CPROVER_requires(self->remaining_at_entry == self->buffer_->data_size_ - self->buffer_->pos_ && self->remaining_at_entry <= SEQ_MAX)
__CPROVER_ensures(__CPROVER_return_value ==> (self->num_points_was_set && self->max_index_p1 <= (self->faces_added == 0 ? 0 : (uint64_t)self->num_points_set)))
__CPROVER_ensures(__CPROVER_return_value ==> (uint64_t)self->faces_added * 3 <= (uint64_t)self->remaining_at_entry)
__CPROVER_ensures(DB_INV(self->buffer_))
__CPROVER_assigns(self->buffer_->pos_, self->faces_added, self->max_index_p1, self->num_points_set, self->num_points_was_set);

#ifdef VERIF_CBMC
#ifdef SEQ_INLINE
/* bodies of the stand-ins for the fully inlined format lemma */
uint16_t MSD_bitstream_version(const struct MSD *self) { return self->version; }
void Mesh_AddFace(struct MSD *self, const struct Face *f) { self->faces_added++; for (int k = 0; k < 3; ++k) if ((uint64_t)f->v[k] + 1 > self->max_index_p1) self->max_index_p1 = (uint64_t)f->v[k] + 1; }
void PointCloud_set_num_points(struct MSD *self, uint32_t n) { self->num_points_set = n; self->num_points_was_set = true; }
uint32_t seq_scratch[4];
uint32_t *alloc_u32_array(struct MSD *self, uint32_t n) { __CPROVER_assert(n <= 3, "stub: index buffer model capacity"); return seq_scratch; }
bool DecodeSymbols_stub(uint32_t num_values, int num_components, struct DecoderBuffer *src_buffer, uint32_t *out_values) { return false; }
#include "core_helpers.h"
#include "core_slice.c"
#endif
#include "seqmesh_slice.c"
void h_enf_MSD_DecodeConnectivity(void) { GHOSTS(); struct MSD *m; MSD_DecodeConnectivity(m); HARNESS_END(); }
void h_enf_MSD_DecodeAndDecompressIndices(void) { GHOSTS(); struct MSD *m; uint32_t nf, np; MSD_DecodeAndDecompressIndices(m, nf, np); HARNESS_END(); }
#endif

#if defined(VERIF_CBMC) && defined(SEQ_INLINE)
/* seqmesh.fmt.index_width (C05): for bitstream 2.2, one face, raw indices (connectivity method 1): the width of a stored index is pinned to
 * the declared number of points: < 256 -> 1 byte, < 65536 -> 2 bytes, < 2^21 -> varint, otherwise 4 bytes.  Everything inlined. */
void h_seq_index_width(void) {
  uint32_t np; uint8_t idx[12];
  __CPROVER_assume(np >= 3);
  char store[40] = {0};
  struct EncoderBuffer eb; eb.buffer_.data = store; eb.buffer_.size = 0; eb.buffer_.cap = 40; eb.bit_encoder_ = 0; eb.bit_encoder_reserved_bytes_ = 0; eb.encode_bit_sequence_size_ = false;
  EncodeVarint_u32(1, &eb); EncodeVarint_u32(np, &eb); uint8_t method = 1; EncoderBuffer_Encode_u8(&eb, &method);
  size_t header = eb.buffer_.size;                       /* indices 0,1,2 follow as zero bytes except the low byte of each */
  size_t w = np < 256 ? 1 : np < 65536 ? 2 : np < (1u << 21) ? 1 /* varint of a value < 128 */ : 4;
  store[header] = 0; store[header + w] = 1; store[header + 2 * w] = 2;
  struct DecoderBuffer db; db.data_ = store; db.data_size_ = 40; db.pos_ = 0; db.bit_mode_ = false; db.bitstream_version_ = DRACO_BITSTREAM_VERSION(2, 2);
  struct MSD m; m.buffer_ = &db; m.version = DRACO_BITSTREAM_VERSION(2, 2); m.faces_added = 0; m.max_index_p1 = 0; m.num_points_set = 0; m.num_points_was_set = false; m.remaining_at_entry = 40; m.largest_alloc_bytes = 0;
  bool ok = MSD_DecodeConnectivity(&m);
  __CPROVER_assert(ok && m.faces_added == 1 && m.num_points_set == np, "seqmesh.fmt.decodes");
  __CPROVER_assert((size_t)db.pos_ == header + 3 * w, "seqmesh.fmt.index_width_pinned_to_num_points");
  __CPROVER_assert(m.max_index_p1 == 3, "seqmesh.fmt.indices_read_at_pinned_width");
  HARNESS_END();
}
#endif
