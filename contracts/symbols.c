/* Unit 'symbols' (C08/C18/C02/C05): symbol decoder table parsing and dispatch. Bodies sliced into symbols_slice.c. */
#include "ans_contracts.h"
#include "symbols_types.h"
#include <stdlib.h>

/* probability_table_.resize(num_symbols_): C18 is stated in the bodies of the stand-in vec_prob_resize below (an assertion at the allocation) */
void vec_prob_resize(struct RSD *self, uint32_t n);
/* the callee's contract as proved in unit ans (job ans.rans.lut.harness.P*), restated for this call site */
bool RAnsDecoder_rans_build_look_up_table(struct RAnsDecoder *self, const uint32_t token_probs[], uint32_t num_symbols);
/* dispatch targets seen from the dispatcher */
int ghost_dispatched_bits;
bool DecodeRawSymbolsInternal_b(int unique_symbols_bit_length, uint32_t num_values, struct DecoderBuffer *src_buffer, uint32_t *out_values)
__CPROVER_requires(unique_symbols_bit_length >= 1 && unique_symbols_bit_length <= 18)
__CPROVER_ensures(ghost_dispatched_bits == unique_symbols_bit_length && DB_INV(src_buffer) && src_buffer->pos_ >= __CPROVER_old(src_buffer->pos_))
__CPROVER_assigns(ghost_dispatched_bits, src_buffer->pos_);
bool DecodeTaggedSymbols_stub(uint32_t num_values, int num_components, struct DecoderBuffer *src_buffer, uint32_t *out_values)
__CPROVER_ensures(ghost_dispatched_bits == -5 && DB_INV(src_buffer) && src_buffer->pos_ >= __CPROVER_old(src_buffer->pos_))
__CPROVER_assigns(ghost_dispatched_bits, src_buffer->pos_);

/* ------------------------------------------------------------------ contracts */
int ComputeRAnsPrecisionFromUniqueSymbolsBitLength(int symbols_bit_length)
__CPROVER_requires(symbols_bit_length >= 0 && symbols_bit_length <= 64)
__CPROVER_ensures(__CPROVER_return_value == ((3 * symbols_bit_length) / 2 < 12 ? 12 : (3 * symbols_bit_length) / 2 > 20 ? 20 : (3 * symbols_bit_length) / 2))
__CPROVER_assigns();

#define RSD_FRESH(d) (__CPROVER_is_fresh(d, sizeof(struct RSD)) && __CPROVER_is_fresh((d)->ans_, sizeof(struct RAnsDecoder)) && (d)->ans_->lut_table_.cap >= (size_t)rans_precision && (d)->ans_->lut_table_.cap <= ((size_t)1 << 21) && \
   __CPROVER_is_fresh((d)->ans_->lut_table_.data, (d)->ans_->lut_table_.cap * 4) && (d)->ans_->probability_table_.cap >= 1 && (d)->ans_->probability_table_.cap <= RD_NSYM_MAX && \
   __CPROVER_is_fresh((d)->ans_->probability_table_.data, (d)->ans_->probability_table_.cap * sizeof(struct rans_sym)))
/* Create on arbitrary bytes: memory safe; the table allocation respects the C18 bound; decoded probabilities have at most 22 bits;
 * on success the symbol count is what the stream declared and the LUT was built by rans_build_look_up_table */
bool RSD_Create(struct RSD *self, struct DecoderBuffer *buffer)
__CPROVER_requires(RSD_FRESH(self) && DB_FRESH(buffer) && self->remaining_at_entry == buffer->data_size_ - buffer->pos_)
__CPROVER_ensures(DB_INV(buffer) && buffer->pos_ >= __CPROVER_old(buffer->pos_))
__CPROVER_ensures(!__CPROVER_return_value || buffer->bitstream_version_ != 0)
__CPROVER_ensures(!__CPROVER_return_value || (int64_t)(self->num_symbols_ / 64) <= self->remaining_at_entry)
__CPROVER_assigns(buffer->pos_, self->num_symbols_, self->probability_table_, self->ans_->lut_table_.size, self->ans_->probability_table_.size,
                  __CPROVER_object_whole(self->ans_->lut_table_.data), __CPROVER_object_whole(self->ans_->probability_table_.data));

/* zero-run token of the probability table: a run that would end behind the last symbol is refused and nothing is written; otherwise exactly the entries
 * i .. i+offset are zeroed, every other entry keeps its value, nothing outside the table is touched, and i moves to the last entry of the run */
bool RSD_Create_zero_run(struct RSD *self, uint32_t *i_ref, uint8_t prob_data)
__CPROVER_requires(__CPROVER_is_fresh(self, sizeof(struct RSD)) && __CPROVER_is_fresh(i_ref, 4) && self->num_symbols_ >= 1 && self->num_symbols_ <= RD_NSYM_MAX && *i_ref < self->num_symbols_ && \
                   self->probability_table_.size == self->num_symbols_ && __CPROVER_is_fresh(self->probability_table_.data, (size_t)self->num_symbols_ * 4))
__CPROVER_ensures(__CPROVER_return_value == (__CPROVER_old(*i_ref) + (uint32_t)(prob_data >> 2) < self->num_symbols_))
__CPROVER_ensures(__CPROVER_return_value ? *i_ref == __CPROVER_old(*i_ref) + (uint32_t)(prob_data >> 2) : *i_ref == __CPROVER_old(*i_ref))
__CPROVER_ensures(ghost_sym >= self->num_symbols_ || self->probability_table_.data[ghost_sym] == \
     ((__CPROVER_return_value && ghost_sym >= __CPROVER_old(*i_ref) && ghost_sym <= __CPROVER_old(*i_ref) + (uint32_t)(prob_data >> 2)) ? 0u : __CPROVER_old(self->probability_table_.data[ghost_sym < self->num_symbols_ ? ghost_sym : 0])))
__CPROVER_assigns(*i_ref, __CPROVER_object_whole(self->probability_table_.data));

/* DecodeRawSymbols: the stored bit length selects exactly the decoder instantiation of that bit length for 1..18 and is refused otherwise (C05/C08 raw.limit) */
bool DecodeRawSymbols(uint32_t num_values, struct DecoderBuffer *src_buffer, uint32_t *out_values)
__CPROVER_requires(DB_FRESH(src_buffer) && ghost_dispatched_bits == 0)
__CPROVER_ensures(DB_INV(src_buffer) && src_buffer->pos_ >= __CPROVER_old(src_buffer->pos_))
__CPROVER_ensures(__CPROVER_old(src_buffer->pos_) >= src_buffer->data_size_ ? (!__CPROVER_return_value && ghost_dispatched_bits == 0) : \
   (((uint8_t)src_buffer->data_[__CPROVER_old(src_buffer->pos_)] >= 1 && (uint8_t)src_buffer->data_[__CPROVER_old(src_buffer->pos_)] <= 18) ? \
      ghost_dispatched_bits == (int)(uint8_t)src_buffer->data_[__CPROVER_old(src_buffer->pos_)] : (!__CPROVER_return_value && ghost_dispatched_bits == 0)))
__CPROVER_assigns(ghost_dispatched_bits, src_buffer->pos_);

bool DecodeSymbols(uint32_t num_values, int num_components, struct DecoderBuffer *src_buffer, uint32_t *out_values)
__CPROVER_requires(DB_FRESH(src_buffer) && ghost_dispatched_bits == 0)
__CPROVER_ensures(DB_INV(src_buffer) && src_buffer->pos_ >= __CPROVER_old(src_buffer->pos_))
__CPROVER_ensures(num_values != 0 || (__CPROVER_return_value && src_buffer->pos_ == __CPROVER_old(src_buffer->pos_)))
__CPROVER_ensures(!(num_values != 0 && __CPROVER_old(src_buffer->pos_) < src_buffer->data_size_) || \
   ((uint8_t)src_buffer->data_[__CPROVER_old(src_buffer->pos_)] == 0 ? ghost_dispatched_bits == -5 : \
    (uint8_t)src_buffer->data_[__CPROVER_old(src_buffer->pos_)] == 1 ? true : (!__CPROVER_return_value && ghost_dispatched_bits == 0)))
__CPROVER_assigns(ghost_dispatched_bits, src_buffer->pos_);

/* ------------------------------------------------------------------ the symbol loops over a ghost symbol decoder */
#define GSD_SYMBOL(k) ((uint32_t)(k) ^ 0x5a5a5a5au)        /* the k-th symbol of the ghost stream: any fixed injective function of k */
int ghost_bits_mode; uint32_t ghost_bits_read;
void GSD_ctor(struct GSD *d) __CPROVER_ensures(d->created == 0 && d->started == 0 && d->ended == 0 && d->decoded == 0) __CPROVER_assigns(*d);
bool GSD_Create(struct GSD *d, struct DecoderBuffer *b) __CPROVER_requires(d->created == 0 && DB_INV(b)) __CPROVER_ensures(d->created == 1 && DB_INV(b) && b->pos_ >= __CPROVER_old(b->pos_))
  __CPROVER_assigns(d->created, d->num_symbols, b->pos_);
uint32_t GSD_num_symbols(const struct GSD *d) __CPROVER_requires(d->created == 1) __CPROVER_ensures(__CPROVER_return_value == d->num_symbols) __CPROVER_assigns();
bool GSD_StartDecoding(struct GSD *d, struct DecoderBuffer *b) __CPROVER_requires(d->created == 1 && d->started == 0 && DB_INV(b))
  __CPROVER_ensures(d->started == (__CPROVER_return_value ? 1 : 0) && DB_INV(b) && b->pos_ >= __CPROVER_old(b->pos_)) __CPROVER_assigns(d->started, b->pos_);
/* rans_read needs a non-empty probability table (its LUT slots index it): decoding from a decoder without symbols is the memory-safety hazard */
uint32_t GSD_DecodeSymbol(struct GSD *d) __CPROVER_requires(d->started == 1 && d->ended == 0 && d->num_symbols >= 1)
  __CPROVER_ensures(d->decoded == __CPROVER_old(d->decoded) + 1 && __CPROVER_return_value == GSD_SYMBOL(__CPROVER_old(d->decoded))) __CPROVER_assigns(d->decoded);
void GSD_EndDecoding(struct GSD *d) __CPROVER_requires(d->started == 1) __CPROVER_ensures(d->ended == 1) __CPROVER_assigns(d->ended);
void GBITS_Start(struct DecoderBuffer *b) __CPROVER_requires(ghost_bits_mode == 0) __CPROVER_ensures(ghost_bits_mode == 1) __CPROVER_assigns(ghost_bits_mode);
bool GBITS_Decode(struct DecoderBuffer *b, uint32_t nbits, uint32_t *v) __CPROVER_requires(ghost_bits_mode == 1) __CPROVER_ensures(ghost_bits_read == __CPROVER_old(ghost_bits_read) + 1) __CPROVER_assigns(*v, ghost_bits_read);
void GBITS_End(struct DecoderBuffer *b) __CPROVER_requires(ghost_bits_mode == 1) __CPROVER_ensures(ghost_bits_mode == 0) __CPROVER_assigns(ghost_bits_mode);
#define SYM_MAXVALS ((uint32_t)1 << 28)
/* raw scheme loop: on success exactly num_values symbols were decoded, in order, into out_values[0..num_values); nothing is decoded from a decoder
 * without symbols; the reader only moves forward */
bool DecodeRawSymbolsInternal(uint32_t num_values, struct DecoderBuffer *src_buffer, uint32_t *out_values)
__CPROVER_requires(DB_FRESH(src_buffer) && num_values <= SYM_MAXVALS && __CPROVER_is_fresh(out_values, (size_t)(num_values ? num_values : 1) * 4))
__CPROVER_ensures(DB_INV(src_buffer) && src_buffer->pos_ >= __CPROVER_old(src_buffer->pos_))
__CPROVER_ensures(!(__CPROVER_return_value && ghost_len < num_values) || out_values[ghost_len] == GSD_SYMBOL(ghost_len))
__CPROVER_assigns(src_buffer->pos_, __CPROVER_object_whole(out_values));
/* tagged scheme loop (caller obligations: num_components >= 1 and num_values a multiple of it -- every in-tree caller passes entries * components):
 * every store lands inside out_values[0..num_values), one bit-length symbol is decoded per entry and num_components values per entry, the bit reader is
 * opened and closed around the loop */
bool DecodeTaggedSymbols(uint32_t num_values, int num_components, struct DecoderBuffer *src_buffer, uint32_t *out_values)
#ifdef TAG_NC   /* the job fixes the component count: `i += num_components` and the divisibility invariant are then arithmetic with a constant */
__CPROVER_requires(num_components == TAG_NC)
#endif
__CPROVER_requires(DB_FRESH(src_buffer) && num_values <= SYM_MAXVALS && num_components >= 1 && num_components <= 255 && num_values % (uint32_t)num_components == 0 && \
                   __CPROVER_is_fresh(out_values, (size_t)(num_values ? num_values : 1) * 4) && ghost_bits_mode == 0 && ghost_bits_read == 0)
__CPROVER_ensures(DB_INV(src_buffer) && src_buffer->pos_ >= __CPROVER_old(src_buffer->pos_))
__CPROVER_ensures(!__CPROVER_return_value || ghost_bits_mode == 0)
__CPROVER_assigns(src_buffer->pos_, ghost_bits_mode, ghost_bits_read, __CPROVER_object_whole(out_values));

bool RSE_EncodeTable_step(struct RSE *self, uint32_t *i_ref, struct EncoderBuffer *buffer);
bool RSD_Create_prob_token(struct RSD *self, uint32_t i, uint8_t prob_data, int token, struct DecoderBuffer *buffer);
static inline bool EncoderBuffer_Encode_u8_val(struct EncoderBuffer *b, uint8_t v) { return EncoderBuffer_Encode_u8(b, &v); } /* Encode<uint8_t>(const T&) called with a temporary */
#ifdef VERIF_CBMC
#include "core_helpers.h"
#include "core_slice.c"
#include "ans_slice.c"
#include "symbols_slice.c"
void h_enf_ComputeRAnsPrecision(void) { AGHOSTS(); int b; ComputeRAnsPrecisionFromUniqueSymbolsBitLength(b); HARNESS_END(); }
void h_enf_RSD_Create(void) { AGHOSTS(); struct RSD *d; struct DecoderBuffer *b; RSD_Create(d, b); HARNESS_END(); }
void h_enf_DecodeRawSymbols(void) { AGHOSTS(); ghost_dispatched_bits = 0; uint32_t n; struct DecoderBuffer *b; uint32_t *o; DecodeRawSymbols(n, b, o); HARNESS_END(); }
void h_enf_RSD_Create_zero_run(void) { AGHOSTS(); struct RSD *d; uint32_t *i; uint8_t p; RSD_Create_zero_run(d, i, p); HARNESS_END(); }
/* table.entry.rt (C08/C05): EVERY probability 1 .. 2^22-1 written by one step of the encoder's table loop is read back by the decoder's token branch: same
 * value, consumed == produced, 1..3 bytes (6 bits in the first byte, 8 per extra byte, extra-byte count in the two low bits and never the zero-run tag) */
void h_table_entry_rt(void) {
  AGHOSTS();
  uint32_t prob; __CPROVER_assume(prob >= 1 && prob < (1u << 22));
  struct rans_sym tab[1]; tab[0].prob = prob; tab[0].cum_prob = 0;
  struct RSE e; e.probability_table_.data = tab; e.probability_table_.size = 1; e.probability_table_.cap = 1; e.num_symbols_ = 1;
  char store[8]; for (int k = 0; k < 8; ++k) store[k] = 0x55;
  struct EncoderBuffer eb; eb.buffer_.data = store; eb.buffer_.size = 0; eb.buffer_.cap = 8; eb.bit_encoder_ = 0; eb.bit_encoder_reserved_bytes_ = 0; eb.encode_bit_sequence_size_ = false;
  uint32_t i = 0; bool eok = RSE_EncodeTable_step(&e, &i, &eb);
  size_t want = prob >= (1u << 14) ? 3 : prob >= (1u << 6) ? 2 : 1;
  __CPROVER_assert(eok && i == 0 && eb.buffer_.size == want, "table.entry.rt.frozen_entry_length");
  __CPROVER_assert(((uint8_t)store[0] & 3) == want - 1, "table.entry.rt.token_is_the_extra_byte_count");
  struct DecoderBuffer db; db.data_ = store; db.data_size_ = (int64_t)eb.buffer_.size; db.pos_ = 1; db.bit_mode_ = false; db.bitstream_version_ = DRACO_BITSTREAM_VERSION(2, 2);
  uint32_t dtab[1] = {0}; struct RSD d; d.probability_table_.data = dtab; d.probability_table_.size = 1; d.probability_table_.cap = 1; d.num_symbols_ = 1; d.ans_ = 0; d.remaining_at_entry = 0;
  uint8_t first = (uint8_t)store[0];
  bool dok = RSD_Create_prob_token(&d, 0, first, first & 3, &db);
  __CPROVER_assert(dok && dtab[0] == prob, "table.entry.rt.probability_read_back_exactly");
  __CPROVER_assert(db.pos_ == (int64_t)eb.buffer_.size, "table.entry.rt.consumed_eq_produced");
  HARNESS_END();
}
/* table.zero_run.rt (C08; bounded table of 66 entries): a run of r >= 1 zero probabilities starting at entry 0 and followed by a non-zero one is written as ONE
 * token with tag 3 and offset min(r,64) - 1, and the decoder's zero-run branch clears exactly those entries and moves its cursor as the encoder did */
void h_table_zero_run_rt(void) {
  AGHOSTS();
  uint32_t r; __CPROVER_assume(r >= 1 && r <= 65);
  struct rans_sym tab[66]; for (int k = 0; k < 66; ++k) { tab[k].prob = (uint32_t)k < r ? 0u : 1u; tab[k].cum_prob = 0; }
  struct RSE e; e.probability_table_.data = tab; e.probability_table_.size = 66; e.probability_table_.cap = 66; e.num_symbols_ = 66;
  char store[8]; for (int k = 0; k < 8; ++k) store[k] = 0x55;
  struct EncoderBuffer eb; eb.buffer_.data = store; eb.buffer_.size = 0; eb.buffer_.cap = 8; eb.bit_encoder_ = 0; eb.bit_encoder_reserved_bytes_ = 0; eb.encode_bit_sequence_size_ = false;
  uint32_t i = 0; bool eok = RSE_EncodeTable_step(&e, &i, &eb);
  uint32_t covered = r < 64 ? r : 64;
  __CPROVER_assert(eok && eb.buffer_.size == 1 && (uint8_t)store[0] == (uint8_t)(((covered - 1) << 2) | 3), "table.zero_run.rt.one_token_with_tag_3");
  __CPROVER_assert(i == covered - 1, "table.zero_run.rt.encoder_cursor");
  uint32_t dtab[66]; for (int k = 0; k < 66; ++k) dtab[k] = 7;
  struct RSD d; d.probability_table_.data = dtab; d.probability_table_.size = 66; d.probability_table_.cap = 66; d.num_symbols_ = 66; d.ans_ = 0; d.remaining_at_entry = 0;
  uint32_t di = 0; bool dok = RSD_Create_zero_run(&d, &di, (uint8_t)store[0]);
  __CPROVER_assert(dok && di == i, "table.zero_run.rt.decoder_cursor_follows_the_encoder");
  uint32_t k; __CPROVER_assume(k < 66);
  __CPROVER_assert(dtab[k] == (k < covered ? 0u : 7u), "table.zero_run.rt.exactly_the_run_is_cleared");
  HARNESS_END();
}
void h_enf_DecodeRawSymbolsInternal(void) { AGHOSTS(); uint32_t n; struct DecoderBuffer *b; uint32_t *o; DecodeRawSymbolsInternal(n, b, o); HARNESS_END(); }
void h_enf_DecodeTaggedSymbols(void) { AGHOSTS(); ghost_bits_mode = 0; ghost_bits_read = 0; uint32_t n; int c; struct DecoderBuffer *b; uint32_t *o; DecodeTaggedSymbols(n, c, b, o); HARNESS_END(); }
/* symbols.StartDecoding (C08/C02/C18/C06): RAnsSymbolDecoder::StartDecoding on ARBITRARY bytes, any length, both version paths: the payload size declared
 * by the stream must fit into the remaining input, the reader is positioned exactly behind the payload (size field + payload), the rANS reader gets
 * exactly the payload and ends in a valid state.  (>= 3 readable bytes precede the size field: see rans.read_init.safe.) */
void h_rsd_start(void) {
  AGHOSTS();
  int64_t size, pos; uint16_t version; __CPROVER_assume(3 <= pos && pos <= size && size <= ((int64_t)1 << 30));
  char *data = malloc((size_t)size); __CPROVER_assume(data != 0);
  struct DecoderBuffer db; db.data_ = data; db.data_size_ = size; db.pos_ = pos; db.bit_mode_ = false; db.bitstream_version_ = version;
  struct RAnsDecoder ans; ans.lut_table_.data = 0; ans.lut_table_.size = 0; ans.lut_table_.cap = 0; ans.probability_table_.data = 0; ans.probability_table_.size = 0; ans.probability_table_.cap = 0;
  ans.ans_.buf = 0; ans.ans_.buf_offset = 0; ans.ans_.state = 0;
  struct RSD d; d.probability_table_.data = 0; d.probability_table_.size = 0; d.probability_table_.cap = 0; d.num_symbols_ = 0; d.ans_ = &ans; d.remaining_at_entry = size - pos;
  bool ok = RSD_StartDecoding(&d, &db);
  __CPROVER_assert(DB_INV(&db) && db.pos_ >= pos, "symbols.StartDecoding.reader_position_valid_and_monotone");
  if (ok) {
    int64_t payload = (int64_t)(db.pos_ - pos);   /* size field + payload */
    __CPROVER_assert(ans.ans_.buf >= (const uint8_t *)data + pos && ans.ans_.buf <= (const uint8_t *)data + db.pos_, "symbols.StartDecoding.payload_starts_behind_the_size_field");
    __CPROVER_assert((const uint8_t *)data + db.pos_ - ans.ans_.buf >= 1 && ans.ans_.buf_offset >= -3 && ans.ans_.buf_offset < (const uint8_t *)data + db.pos_ - ans.ans_.buf, "symbols.StartDecoding.rans_reader_confined_to_the_declared_payload");   /* -3: the 4-byte final-state form in a shorter payload, see rans.read_init.safe */
    __CPROVER_assert(ans.ans_.state >= (uint32_t)l_rans_base && ans.ans_.state < RD_TOP, "symbols.StartDecoding.state_in_range");
    __CPROVER_assert(payload <= size - pos, "symbols.StartDecoding.payload_fits_remaining_input");
  }
  HARNESS_END();
}
void h_enf_DecodeSymbols(void) { AGHOSTS(); ghost_dispatched_bits = 0; uint32_t n; int c; struct DecoderBuffer *b; uint32_t *o; DecodeSymbols(n, c, b, o); HARNESS_END(); }
/* symbols.Create.alloc_guard (C18/C02, unbounded): RAnsSymbolDecoder::Create on ARBITRARY bytes, any buffer length, any version, up to and
 * including the allocation of the probability table: the table is sized only within the C18 bound.  The resize stand-in checks its
 * precondition and then ends the path (assume(false)), so the loops behind it are not entered; they are covered by Create.bounded. */
#ifdef CREATE_PREFIX
void vec_prob_resize(struct RSD *self, uint32_t n) {
  __CPROVER_assert((int64_t)(n / 64) <= self->remaining_at_entry, "symbols.Create.table_allocation_justified_by_remaining_input");
  __CPROVER_assume(0);
}
#else
/* body of the resize stand-in for the bounded job: storage of fixed capacity provided by the harness */
uint32_t create_store[1024];
void vec_prob_resize(struct RSD *self, uint32_t n) {
  __CPROVER_assert((int64_t)(n / 64) <= self->remaining_at_entry, "symbols.Create.table_allocation_justified_by_remaining_input");
  __CPROVER_assert(n <= 1024, "stub: table model capacity");
  self->probability_table_.data = create_store; self->probability_table_.size = n; self->probability_table_.cap = 1024;
  /* create_store is zero-initialised (file scope); resize of an empty vector value-initialises its elements */
}
#endif
#ifndef CREATE_MAXBYTES
#define CREATE_MAXBYTES DB_MAX
#endif
void h_rsd_create(void) {
  AGHOSTS();
  int64_t size, pos; size_t lcap, pcap; uint16_t version;
  __CPROVER_assume(0 <= pos && pos <= size && size <= DB_MAX && size - pos <= CREATE_MAXBYTES && lcap >= (size_t)rans_precision && lcap <= ((size_t)1 << 21) && pcap >= 1024 && pcap <= RD_NSYM_MAX);
  char *data = malloc((size_t)(size ? size : 1)); __CPROVER_assume(data != 0);
  uint32_t *lut = malloc(lcap * 4); struct rans_sym *pt = malloc(pcap * sizeof(struct rans_sym)); __CPROVER_assume(lut != 0 && pt != 0);
  struct DecoderBuffer db; db.data_ = data; db.data_size_ = size; db.pos_ = pos; db.bit_mode_ = false; db.bitstream_version_ = version;
  struct RAnsDecoder *ans = malloc(sizeof(struct RAnsDecoder)); __CPROVER_assume(ans != 0);
  ans->lut_table_.data = lut; ans->lut_table_.size = 0; ans->lut_table_.cap = lcap; ans->probability_table_.data = pt; ans->probability_table_.size = 0; ans->probability_table_.cap = pcap;
  ans->ans_.buf = 0; ans->ans_.buf_offset = 0; ans->ans_.state = 0;
  struct RSD d; d.probability_table_.data = 0; d.probability_table_.size = 0; d.probability_table_.cap = 0; d.num_symbols_ = 0; d.ans_ = ans; d.remaining_at_entry = size - pos;
  bool ok = RSD_Create(&d, &db);
  __CPROVER_assert(DB_INV(&db) && db.pos_ >= pos, "symbols.Create.reader_position_valid_and_monotone");
  __CPROVER_assert(!ok || version != 0, "symbols.Create.unknown_version_refused");
  __CPROVER_assert(!ok || (int64_t)(d.num_symbols_ / 64) <= size - pos, "symbols.Create.symbol_count_justified_by_remaining_input");
  HARNESS_END();
}

/* format pin (C05): the precision table for bit lengths 1..18 is the frozen one */
void h_precision_table(void) {
  static const int frozen[19] = {0, 12, 12, 12, 12, 12, 12, 12, 12, 13, 15, 16, 18, 19, 20, 20, 20, 20, 20};
  int b; __CPROVER_assume(b >= 1 && b <= 18);
  __CPROVER_assert(ComputeRAnsPrecisionFromUniqueSymbolsBitLength(b) == frozen[b], "symbols.precision_table_is_frozen");
  HARNESS_END();
}
#endif
