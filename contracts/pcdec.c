/* Unit 'pcdec' (C05/C02/C06): the header and the top-level decode sequence. Bodies sliced into pcdec_slice.c. */
#include "core_contracts.h"
#include <stdlib.h>
#include "pcdec_types.h"
#define TRIANGULAR_MESH (POINT_CLOUD + 1)
enum { STATUS_OK = 0, STATUS_DRACO_ERROR = -1, STATUS_IO_ERROR = -2, STATUS_INVALID_PARAMETER = -3, STATUS_UNSUPPORTED_VERSION = -4, STATUS_UNKNOWN_VERSION = -5, STATUS_UNSUPPORTED_FEATURE = -6 };
static inline void DecoderBuffer_set_bitstream_version(struct DecoderBuffer *b, uint16_t v) { b->bitstream_version_ = v; }
static inline uint16_t PCD_bitstream_version(const struct PCD *self) { return DRACO_BITSTREAM_VERSION(self->version_major_, self->version_minor_); }

int PCD_DecodeHeader(struct DecoderBuffer *buffer, struct DracoHeader *out_header);
int PCD_Decode(struct PCD *self, const void *options, struct DecoderBuffer *in_buffer, void *out_point_cloud);
uint8_t PCD_GetGeometryType(const struct PCD *self);
int PCD_DecodeMetadata(struct PCD *self);
bool PCD_InitializeDecoder(struct PCD *self);
bool PCD_DecodeGeometryData(struct PCD *self);
bool PCD_DecodePointAttributes(struct PCD *self);
#define MAX_MAJOR(t) ((t) == POINT_CLOUD ? kDracoPointCloudBitstreamVersionMajor : kDracoMeshBitstreamVersionMajor)
#define MAX_MINOR(t) ((t) == POINT_CLOUD ? kDracoPointCloudBitstreamVersionMinor : kDracoMeshBitstreamVersionMinor)

#ifdef VERIF_CBMC
#include "core_helpers.h"
#include "core_slice.c"
#include "pcdec_slice.c"
/* The stages behind the header are ghost stand-ins: they record the order in which they run and REQUIRE that the reader carries the version
 * announced by the header (every version-gated reader below them depends on it); their results are arbitrary. */
#define VERSION_HANDED_ON(s) ((s)->buffer_->bitstream_version_ == DRACO_BITSTREAM_VERSION((s)->version_major_, (s)->version_minor_))
uint8_t PCD_GetGeometryType(const struct PCD *self) { return self->ghost_geometry_type; }
int PCD_DecodeMetadata(struct PCD *self) { __CPROVER_assert(VERSION_HANDED_ON(self), "pcdec.Decode.reader_carries_header_version.metadata"); __CPROVER_assert(self->ghost_stage == 0, "pcdec.Decode.stage_order.metadata"); self->ghost_stage = 1; int r; __CPROVER_assume(r == STATUS_OK || r == STATUS_DRACO_ERROR || r == STATUS_IO_ERROR); return r; }
bool PCD_InitializeDecoder(struct PCD *self) { __CPROVER_assert(VERSION_HANDED_ON(self), "pcdec.Decode.reader_carries_header_version.init"); __CPROVER_assert(self->ghost_stage <= 1, "pcdec.Decode.stage_order.init"); self->ghost_metadata_decoded = self->ghost_stage; self->ghost_stage = 2; bool r; return r; }
bool PCD_DecodeGeometryData(struct PCD *self) { __CPROVER_assert(VERSION_HANDED_ON(self), "pcdec.Decode.reader_carries_header_version.geometry"); __CPROVER_assert(self->ghost_stage == 2, "pcdec.Decode.stage_order.geometry"); self->ghost_stage = 3; bool r; return r; }
bool PCD_DecodePointAttributes(struct PCD *self) { __CPROVER_assert(VERSION_HANDED_ON(self), "pcdec.Decode.reader_carries_header_version.attributes"); __CPROVER_assert(self->ghost_stage == 3, "pcdec.Decode.stage_order.attributes"); self->ghost_stage = 4; bool r; return r; }

static char *mk_stream(int64_t *size_out, int64_t *pos_out) {
  int64_t size, pos; __CPROVER_assume(0 <= pos && pos <= size && size <= DB_MAX);
  char *data = malloc((size_t)(size ? size : 1)); __CPROVER_assume(data != 0);
  *size_out = size; *pos_out = pos; return data;
}
#define B(k) ((uint8_t)data[pos + (k)])
#define MAGIC_OK (B(0) == 'D' && B(1) == 'R' && B(2) == 'A' && B(3) == 'C' && B(4) == 'O')
/* pcdec.DecodeHeader (C05/C02): on ARBITRARY bytes of any length: 11 bytes are read and nothing else; layout "DRACO", major, minor, encoder type,
 * encoder method (one byte each), flags (uint16, little endian); short input is an IO error, a wrong magic a DRACO error. */
void h_pcd_header(void) {
  GHOSTS();
  int64_t size, pos; char *data = mk_stream(&size, &pos); uint16_t ver;
  struct DecoderBuffer db; db.data_ = data; db.data_size_ = size; db.pos_ = pos; db.bit_mode_ = false; db.bitstream_version_ = ver;
  struct DracoHeader h;
  int st = PCD_DecodeHeader(&db, &h);
  __CPROVER_assert(DB_INV(&db) && db.pos_ >= pos && db.pos_ <= pos + 11 && db.bitstream_version_ == ver, "pcdec.DecodeHeader.reader_position_valid");
  __CPROVER_assert(st == STATUS_OK || st == STATUS_IO_ERROR || st == STATUS_DRACO_ERROR, "pcdec.DecodeHeader.status_codes");
  if (size - pos < 5) __CPROVER_assert(st == STATUS_IO_ERROR, "pcdec.DecodeHeader.short_magic_is_io_error");
  else if (!MAGIC_OK) __CPROVER_assert(st == STATUS_DRACO_ERROR, "pcdec.DecodeHeader.wrong_magic_is_not_a_draco_file");
  else if (size - pos < 11) __CPROVER_assert(st == STATUS_IO_ERROR, "pcdec.DecodeHeader.short_header_is_io_error");
  else {
    __CPROVER_assert(st == STATUS_OK && db.pos_ == pos + 11, "pcdec.DecodeHeader.consumes_exactly_11_bytes");
    __CPROVER_assert(h.version_major == B(5) && h.version_minor == B(6) && h.encoder_type == B(7) && h.encoder_method == B(8) && h.flags == (uint16_t)(B(9) | (B(10) << 8)), "pcdec.DecodeHeader.frozen_field_layout");
  }
  HARNESS_END();
}
/* pcdec.Decode (C05/C06/C02): on ARBITRARY bytes, for a mesh and for a point-cloud decoder, and for ANY bitstream version the caller's buffer carried
 * before: a header announcing a version newer than the supported one for that geometry type (or major version 0) is rejected with UNKNOWN_VERSION
 * before any stage runs; every other well-formed header of the right geometry type starts the stages, in order, with the HEADER's version installed in
 * the reader; metadata is decoded exactly when the version is >= 1.3 and the flag bit is set. */
void h_pcd_decode(void) {
  GHOSTS();
  int64_t size, pos; char *data = mk_stream(&size, &pos); uint16_t ver;
  struct DecoderBuffer db; db.data_ = data; db.data_size_ = size; db.pos_ = pos; db.bit_mode_ = false; db.bitstream_version_ = ver;
  struct PCD d; uint8_t type; __CPROVER_assume(type == POINT_CLOUD || type == TRIANGULAR_MESH);
  d.ghost_geometry_type = type; d.ghost_stage = 0; d.ghost_metadata_decoded = 0; d.buffer_ = 0; d.point_cloud_ = 0; d.options_ = 0; d.version_major_ = 0; d.version_minor_ = 0;
  int opt, pc;
  int st = PCD_Decode(&d, &opt, &db, &pc);
  __CPROVER_assert(d.buffer_ == &db && d.point_cloud_ == &pc && d.options_ == &opt && DB_INV(&db), "pcdec.Decode.members_installed");
  if (size - pos >= 11 && MAGIC_OK) {
    bool newer = B(5) < 1 || B(5) > MAX_MAJOR(type) || (B(5) == MAX_MAJOR(type) && B(6) > MAX_MINOR(type));
    if (B(7) != type) __CPROVER_assert(st == STATUS_DRACO_ERROR && d.ghost_stage == 0, "pcdec.Decode.wrong_geometry_type_refused");
    else if (newer) __CPROVER_assert(st == STATUS_UNKNOWN_VERSION && d.ghost_stage == 0, "pcdec.Decode.unknown_newer_version_rejected_with_version_error");
    else {
      __CPROVER_assert(st != STATUS_UNKNOWN_VERSION && d.ghost_stage >= 1, "pcdec.Decode.supported_version_accepted");
      __CPROVER_assert(db.bitstream_version_ == (uint16_t)((B(5) << 8) | B(6)) && d.version_major_ == B(5) && d.version_minor_ == B(6), "pcdec.Decode.header_version_installed_in_reader");
      bool want_meta = ((B(5) << 8) | B(6)) >= 0x0103 && (B(10) & 0x80) != 0;
      __CPROVER_assert(d.ghost_stage < 2 || d.ghost_metadata_decoded == (want_meta ? 1 : 0), "pcdec.Decode.metadata_decoded_iff_flag_and_version_1_3");
    }
  } else __CPROVER_assert(st != STATUS_OK && d.ghost_stage == 0, "pcdec.Decode.bad_header_refused");
  __CPROVER_assert(st != STATUS_OK || d.ghost_stage == 4, "pcdec.Decode.ok_only_after_all_stages");
  HARNESS_END();
}
/* format pin (C05): the newest supported versions never go DOWN (streams written today stay decodable); a legitimate new minor version is not an alarm */
void h_fmt_supported_versions(void) {
  __CPROVER_assert(DRACO_BITSTREAM_VERSION(kDracoMeshBitstreamVersionMajor, kDracoMeshBitstreamVersionMinor) >= DRACO_BITSTREAM_VERSION(2, 2), "fmt.mesh_version_at_least_2_2");
  __CPROVER_assert(DRACO_BITSTREAM_VERSION(kDracoPointCloudBitstreamVersionMajor, kDracoPointCloudBitstreamVersionMinor) >= DRACO_BITSTREAM_VERSION(2, 3), "fmt.point_cloud_version_at_least_2_3");
  __CPROVER_assert(METADATA_FLAG_MASK == 0x8000 && POINT_CLOUD == 0 && TRIANGULAR_MESH == 1, "fmt.header_constants");
  HARNESS_END();
}
#endif
