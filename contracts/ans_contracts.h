#ifndef ANS_CONTRACTS_H
#define ANS_CONTRACTS_H
/* Unit 'ans': rABS/rANS primitives (C17, C08, C05, C02). Bodies sliced into ans_slice.c. */
#include "core_contracts.h"
#include "vec_ans.h"
#include <stdlib.h>
#ifndef RANS_P
#define RANS_P 12
#endif
#define rans_precision_bits_t RANS_P
#include "ans_types.h"

uint32_t ghost_sym, ghost_rem;
#ifdef VERIF_CBMC
#define AGHOSTS() do { GHOSTS(); ghost_sym = nondet_u32(); ghost_rem = nondet_u32(); } while (0)
#else
#define AGHOSTS() ((void)0)
#endif

/* vector resize stubs: contract only */
void vec_u32_resize(struct vec_u32 *v, size_t n)
__CPROVER_requires(n <= v->cap)
__CPROVER_ensures(v->size == n)
__CPROVER_assigns(v->size, __CPROVER_object_whole(v->data));
void vec_sym_resize(struct vec_sym *v, size_t n)
__CPROVER_requires(n <= v->cap)
__CPROVER_ensures(v->size == n)
__CPROVER_assigns(v->size, __CPROVER_object_whole(v->data));

/* ------------------------------------------------------------------ fastdiv: exact division for the rABS operand range */
#define ANS_LB ((uint32_t)DRACO_ANS_L_BASE)
#define ANS_TOP ((uint32_t)DRACO_ANS_L_BASE * (uint32_t)DRACO_ANS_IO_BASE)
unsigned fastdiv(unsigned x, int y)
__CPROVER_requires(1 <= y && y <= 255 && x < ANS_TOP)
__CPROVER_ensures(__CPROVER_return_value == x / (unsigned)y)
__CPROVER_assigns();

/* ------------------------------------------------------------------ little-endian helpers */
uint32_t mem_get_le16(const void *vmem) __CPROVER_requires(__CPROVER_is_fresh(vmem, 2)) __CPROVER_ensures(__CPROVER_return_value == LE16((const uint8_t *)vmem)) __CPROVER_assigns();
uint32_t mem_get_le24(const void *vmem) __CPROVER_requires(__CPROVER_is_fresh(vmem, 3))
  __CPROVER_ensures(__CPROVER_return_value == ((uint32_t)LE16((const uint8_t *)vmem) | ((uint32_t)((const uint8_t *)vmem)[2] << 16))) __CPROVER_assigns();
uint32_t mem_get_le32(const void *vmem) __CPROVER_requires(__CPROVER_is_fresh(vmem, 4)) __CPROVER_ensures(__CPROVER_return_value == LE32((const uint8_t *)vmem)) __CPROVER_assigns();

/* ------------------------------------------------------------------ decoder-side state invariants
 * AnsDecoder: buf valid for buf_offset bytes (the reader walks DOWN from buf_offset), 0 <= buf_offset. */
#define AD_MAX (1 << 30)
#define AD_FRESH(a) (__CPROVER_is_fresh(a, sizeof(struct AnsDecoder)) && (a)->buf_offset >= 0 && (a)->buf_offset <= AD_MAX && __CPROVER_is_fresh((a)->buf, (size_t)(a)->buf_offset))
int rabs_desc_read(struct AnsDecoder *ans, AnsP8 p0)
__CPROVER_requires(AD_FRESH(ans) && ans->state < ANS_TOP)
__CPROVER_ensures(__CPROVER_return_value == 0 || __CPROVER_return_value == 1)
__CPROVER_ensures(0 <= ans->buf_offset && ans->buf_offset <= __CPROVER_old(ans->buf_offset) && ans->buf_offset >= __CPROVER_old(ans->buf_offset) - 1)
__CPROVER_ensures(ans->state < ANS_TOP)
__CPROVER_assigns(ans->state, ans->buf_offset);

int ans_read_init(struct AnsDecoder *const ans, const uint8_t *const buf, int offset)
__CPROVER_requires(__CPROVER_is_fresh(ans, sizeof(struct AnsDecoder)) && offset <= AD_MAX && (offset < 1 || __CPROVER_is_fresh(buf, (size_t)offset)))
__CPROVER_ensures(__CPROVER_return_value == 0 || __CPROVER_return_value == 1)
__CPROVER_ensures(__CPROVER_return_value == 0 ==> (ans->buf == buf && 0 <= ans->buf_offset && ans->buf_offset < offset && ans->buf_offset >= offset - 3 && ANS_LB <= ans->state && ans->state < ANS_TOP))
__CPROVER_assigns(ans->buf, ans->buf_offset, ans->state);

/* RAnsDecoder<P>: lut_table_ has rans_precision entries, each < number of symbols; probability_table_ has that many entries. */
#define RD_TOP ((uint32_t)l_rans_base * (uint32_t)DRACO_ANS_IO_BASE)
#define RD_NSYM_MAX ((size_t)1 << 20)
#define RD_FRESH(d) (__CPROVER_is_fresh(d, sizeof(struct RAnsDecoder)) && (d)->ans_.buf_offset >= 0 && (d)->ans_.buf_offset <= AD_MAX && __CPROVER_is_fresh((d)->ans_.buf, (size_t)(d)->ans_.buf_offset) && \
   (d)->lut_table_.size >= (size_t)rans_precision && (d)->lut_table_.size <= ((size_t)1 << 21) && __CPROVER_is_fresh((d)->lut_table_.data, (d)->lut_table_.size * 4) && \
   (d)->probability_table_.size >= 1 && (d)->probability_table_.size <= RD_NSYM_MAX && __CPROVER_is_fresh((d)->probability_table_.data, (d)->probability_table_.size * sizeof(struct rans_sym)))
void RAnsDecoder_fetch_sym(struct RAnsDecoder *self, struct rans_dec_sym *out, uint32_t rem)
__CPROVER_requires(RD_FRESH(self) && __CPROVER_is_fresh(out, sizeof(struct rans_dec_sym)) && rem < (uint32_t)rans_precision && self->lut_table_.data[rem] < self->probability_table_.size)
__CPROVER_ensures(out->val == self->lut_table_.data[rem] && out->prob == self->probability_table_.data[out->val].prob && out->cum_prob == self->probability_table_.data[out->val].cum_prob)
__CPROVER_assigns(*out);
/* rans_read on arbitrary state/bytes: memory safe given the LUT range invariant "every slot holds a valid symbol index".
 * The invariant is a forall over slots; CBMC's back ends cannot use a quantified precondition here (SAT: spurious, cvc5: parse error,
 * z3: timeout), so it is stated for the ghost slot ghost_rem and the slicer inserts the PROPHECY assumption `rem == ghost_rem` in
 * front of the LUT access (listed rewrite in units/ans.py): for every real execution exactly one value of the unconstrained ghost is
 * consistent, so no execution is pruned; the forall-instantiation at r = rem is the only step taken on paper. */
int RAnsDecoder_rans_read(struct RAnsDecoder *self)
__CPROVER_requires(RD_FRESH(self) && self->ans_.state < RD_TOP)
__CPROVER_requires(ghost_rem >= (uint32_t)rans_precision || self->lut_table_.data[ghost_rem] < self->probability_table_.size)
__CPROVER_ensures(0 <= self->ans_.buf_offset && self->ans_.buf_offset <= __CPROVER_old(self->ans_.buf_offset))
__CPROVER_assigns(self->ans_.state, self->ans_.buf_offset);

/* rans_build_look_up_table (unbounded in num_symbols; loop contracts):
 * true => sum(prob) == 2^P and, for every slot r (ghost_rem), lut[r] is a symbol whose interval [cum, cum+prob) contains r. */
bool RAnsDecoder_rans_build_look_up_table(struct RAnsDecoder *self, const uint32_t token_probs[], uint32_t num_symbols)
__CPROVER_requires(__CPROVER_is_fresh(self, sizeof(struct RAnsDecoder)) && num_symbols <= RD_NSYM_MAX && __CPROVER_is_fresh(token_probs, (size_t)(num_symbols ? num_symbols : 1) * 4))
__CPROVER_requires(self->lut_table_.cap >= (size_t)rans_precision && self->lut_table_.cap <= ((size_t)1 << 21) && __CPROVER_is_fresh(self->lut_table_.data, self->lut_table_.cap * 4))
__CPROVER_requires(self->probability_table_.cap >= num_symbols && self->probability_table_.cap <= RD_NSYM_MAX && __CPROVER_is_fresh(self->probability_table_.data, (self->probability_table_.cap ? self->probability_table_.cap : 1) * sizeof(struct rans_sym)))
__CPROVER_ensures(self->lut_table_.size == (size_t)rans_precision && self->probability_table_.size == num_symbols)
__CPROVER_ensures((__CPROVER_return_value && ghost_rem < (uint32_t)rans_precision) ==> (self->lut_table_.data[ghost_rem] < num_symbols && \
    self->probability_table_.data[self->lut_table_.data[ghost_rem]].cum_prob <= ghost_rem && \
    ghost_rem - self->probability_table_.data[self->lut_table_.data[ghost_rem]].cum_prob < self->probability_table_.data[self->lut_table_.data[ghost_rem]].prob))
__CPROVER_ensures((__CPROVER_return_value && ghost_sym < num_symbols) ==> self->probability_table_.data[ghost_sym].prob == token_probs[ghost_sym])
__CPROVER_assigns(self->lut_table_.size, self->probability_table_.size, __CPROVER_object_whole(self->lut_table_.data), __CPROVER_object_whole(self->probability_table_.data));


#endif
