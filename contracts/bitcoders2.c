/* Unit 'bitcoders2' (C17/C02/C18): adaptive rANS bit coder, folded-integer coder routing, symbol bit coder, RAnsBitEncoder::EndEncoding. */
#include "ans_contracts.h"
#include "vec_bits.h"
#include "bitcoders_types.h"
#include <stdlib.h>
/* ghost stand-ins for the per-position sub-coders of FoldedBit32{En,De}coder<...> (the real ones are RAnsBit coders, unit bitcoders) */
struct SubEnc { unsigned count; uint8_t last; };
struct SubDec { unsigned count; uint8_t next; unsigned started; };
#include "bitcoders2_types.h"

/* ------------------------------------------------------------------ std::vector<uint32_t> symbols_ model (fixed capacity) */
static inline uint32_t vec_w32_back(struct vec_w32 *v) {
#ifdef VERIF_CBMC
  __CPROVER_assert(v->size > 0, "std::vector::back() on an empty vector (read outside the stored symbols)");
#endif
  return v->data[v->size - 1];
}
static inline void vec_w32_pop_back(struct vec_w32 *v) {
#ifdef VERIF_CBMC
  __CPROVER_assert(v->size > 0, "std::vector::pop_back() on an empty vector");
#endif
  v->size--;
}
static inline void vec_w32_resize_sym(struct vec_w32 *v, uint32_t n) {
#ifdef VERIF_CBMC
  __CPROVER_assert(n <= v->cap, "stub: vector model capacity");
#endif
  for (uint32_t i = v->size; i < n; ++i) v->data[i] = 0;
  v->size = n;
}
static inline void vec_w32_reverse_range(uint32_t *b, uint32_t *e) { while (b < e && b < --e) { uint32_t t = *b; *b = *e; *e = t; ++b; } }
static inline void vec_w32_reverse(struct vec_w32 *v) { for (size_t i = 0; i + 1 < v->size - i; ++i) { uint32_t t = v->data[i]; v->data[i] = v->data[v->size - 1 - i]; v->data[v->size - 1 - i] = t; } }

/* ------------------------------------------------------------------ adaptive probability model (part of the bitstream format) */
#define CLAMP_RAW(p) ((uint32_t)(((p) * 256) + 0.5))
uint8_t clamp_probability(double p)
__CPROVER_requires(0.0 <= p && p <= 1.0)
__CPROVER_ensures(__CPROVER_return_value >= 1)                          /* rABS cannot code with probability 0 or 256 */
__CPROVER_ensures(__CPROVER_return_value == (CLAMP_RAW(p) == 256 ? 255 : CLAMP_RAW(p) == 0 ? 1 : CLAMP_RAW(p)))
__CPROVER_assigns();
double update_probability(double old_p, bool bit)
__CPROVER_requires(0.0 <= old_p && old_p <= 1.0)
__CPROVER_ensures(0.0 <= __CPROVER_return_value && __CPROVER_return_value <= 1.0)   /* the model never leaves [0,1], so clamp_probability's conversion is always defined */
__CPROVER_ensures(__CPROVER_return_value == old_p * (127.0 / 128.0) + (bit ? 0.0 : 1.0 / 128.0))
__CPROVER_assigns();

#ifndef RABS_READ
#define RABS_READ rabs_desc_read   /* listed rewrite of the rabs_read macro; the adaptive.sync jobs bind it to a ghost reader instead */
#endif
int rabs_read_ghost(struct AnsDecoder *ans, AnsP8 p0);
int ans_read_end(struct AnsDecoder *const ans) __CPROVER_ensures(__CPROVER_return_value == (ans->state == ANS_LB)) __CPROVER_assigns();

#define ARD_FRESH(d) (__CPROVER_is_fresh(d, sizeof(struct AdaptiveRAnsBitDecoder)) && (d)->ans_decoder_.buf_offset >= 0 && (d)->ans_decoder_.buf_offset <= AD_MAX && \
   __CPROVER_is_fresh((d)->ans_decoder_.buf, (size_t)(d)->ans_decoder_.buf_offset) && (d)->ans_decoder_.state < ANS_TOP && 0.0 <= (d)->p0_f_ && (d)->p0_f_ <= 1.0)
void AdaptiveRAnsBitDecoder_Clear(struct AdaptiveRAnsBitDecoder *self)
__CPROVER_requires(__CPROVER_is_fresh(self, sizeof(struct AdaptiveRAnsBitDecoder)))
__CPROVER_ensures(self->p0_f_ == 0.5)
__CPROVER_assigns(self->p0_f_);
/* StartDecoding on arbitrary bytes: the rABS payload declared by the stream must fit into the remaining input (C18: nothing is allocated,
 * the payload is used in place), the reader is positioned after it, the coder state is in range and the model restarts at 1/2 */
bool AdaptiveRAnsBitDecoder_StartDecoding(struct AdaptiveRAnsBitDecoder *self, struct DecoderBuffer *source_buffer)
__CPROVER_requires(__CPROVER_is_fresh(self, sizeof(struct AdaptiveRAnsBitDecoder)) && DB_FRESH(source_buffer) && source_buffer->data_size_ <= (int64_t)AD_MAX)
__CPROVER_ensures(DB_INV(source_buffer) && source_buffer->pos_ >= __CPROVER_old(source_buffer->pos_))
__CPROVER_ensures(!__CPROVER_return_value || (self->ans_decoder_.state >= ANS_LB && self->ans_decoder_.state < ANS_TOP && self->ans_decoder_.buf_offset >= 0 && \
                   (int64_t)self->ans_decoder_.buf_offset < source_buffer->pos_ - __CPROVER_old(source_buffer->pos_) - 4 + 1 && self->p0_f_ == 0.5))
__CPROVER_assigns(source_buffer->pos_, self->p0_f_, self->ans_decoder_);
bool AdaptiveRAnsBitDecoder_DecodeNextBit(struct AdaptiveRAnsBitDecoder *self)
__CPROVER_requires(ARD_FRESH(self))
__CPROVER_ensures(self->ans_decoder_.state < ANS_TOP && 0 <= self->ans_decoder_.buf_offset && self->ans_decoder_.buf_offset <= __CPROVER_old(self->ans_decoder_.buf_offset))
__CPROVER_ensures(0.0 <= self->p0_f_ && self->p0_f_ <= 1.0)
__CPROVER_assigns(self->p0_f_, self->ans_decoder_.state, self->ans_decoder_.buf_offset);
void AdaptiveRAnsBitDecoder_DecodeLeastSignificantBits32(struct AdaptiveRAnsBitDecoder *self, int nbits, uint32_t *value)
__CPROVER_requires(ARD_FRESH(self) && nbits >= 1 && nbits <= 32 && __CPROVER_is_fresh(value, 4))
__CPROVER_ensures(self->ans_decoder_.state < ANS_TOP && 0 <= self->ans_decoder_.buf_offset && self->ans_decoder_.buf_offset <= __CPROVER_old(self->ans_decoder_.buf_offset))
__CPROVER_ensures(0.0 <= self->p0_f_ && self->p0_f_ <= 1.0)
__CPROVER_assigns(self->p0_f_, self->ans_decoder_.state, self->ans_decoder_.buf_offset, *value);

/* ------------------------------------------------------------------ folded-integer coder: bit i (MSB first, i < nbits) goes to sub-coder i, once */
void SubEnc_EncodeBit(struct SubEnc *e, bool bit);
bool SubDec_DecodeNextBit(struct SubDec *d);
bool SubDec_StartDecoding(struct SubDec *d, struct DecoderBuffer *b)
__CPROVER_ensures(d->started == __CPROVER_old(d->started) + 1)
__CPROVER_assigns(d->started, b->pos_);
extern uint32_t ghost_bit;
void FoldedBit32Encoder_EncodeLeastSignificantBits32(struct FoldedBit32Encoder *self, int nbits, uint32_t value)
__CPROVER_requires(__CPROVER_is_fresh(self, sizeof(struct FoldedBit32Encoder)) && nbits >= 1 && nbits <= 32 && ghost_bit < 32)
__CPROVER_ensures(self->folded_number_encoders_[ghost_bit].count == __CPROVER_old(self->folded_number_encoders_[ghost_bit].count) + (ghost_bit < (uint32_t)nbits ? 1 : 0))
__CPROVER_ensures(ghost_bit >= (uint32_t)nbits || self->folded_number_encoders_[ghost_bit].last == ((value >> (nbits - 1 - ghost_bit)) & 1))
__CPROVER_ensures(self->bit_encoder_.count == __CPROVER_old(self->bit_encoder_.count))
__CPROVER_assigns(__CPROVER_object_whole(self));
void FoldedBit32Decoder_DecodeLeastSignificantBits32(struct FoldedBit32Decoder *self, int nbits, uint32_t *value)
__CPROVER_requires(__CPROVER_is_fresh(self, sizeof(struct FoldedBit32Decoder)) && nbits >= 0 && nbits <= 32 && __CPROVER_is_fresh(value, 4) && ghost_bit < 32)
__CPROVER_ensures(self->folded_number_decoders_[ghost_bit].count == __CPROVER_old(self->folded_number_decoders_[ghost_bit].count) + (ghost_bit < (uint32_t)nbits ? 1 : 0))
__CPROVER_ensures(ghost_bit >= (uint32_t)nbits || ((*value >> (nbits - 1 - ghost_bit)) & 1) == (uint32_t)(self->folded_number_decoders_[ghost_bit].next & 1))
__CPROVER_ensures(nbits >= 32 || (*value >> nbits) == 0)
__CPROVER_ensures(self->bit_decoder_.count == __CPROVER_old(self->bit_decoder_.count))
__CPROVER_assigns(__CPROVER_object_whole(self), *value);
/* all 32 position decoders and then the plain-bit decoder are started, in that order, from the same buffer; the first failure is reported */
bool FoldedBit32Decoder_StartDecoding(struct FoldedBit32Decoder *self, struct DecoderBuffer *source_buffer)
__CPROVER_requires(__CPROVER_is_fresh(self, sizeof(struct FoldedBit32Decoder)) && __CPROVER_is_fresh(source_buffer, sizeof(struct DecoderBuffer)) && ghost_bit < 32)
__CPROVER_ensures(!__CPROVER_return_value || (self->folded_number_decoders_[ghost_bit].started == __CPROVER_old(self->folded_number_decoders_[ghost_bit].started) + 1 && \
                   self->bit_decoder_.started == __CPROVER_old(self->bit_decoder_.started) + 1))
__CPROVER_assigns(__CPROVER_object_whole(self), source_buffer->pos_);

/* ------------------------------------------------------------------ symbol bit coder */
#define SB_MAX ((size_t)1 << 20)
#define SB_FRESH(s) (__CPROVER_is_fresh(s, sizeof(struct SymbolBitCoder)) && (s)->symbols_.cap >= 1 && (s)->symbols_.cap <= SB_MAX && (s)->symbols_.size <= (s)->symbols_.cap && __CPROVER_is_fresh((s)->symbols_.data, (s)->symbols_.cap * 4))
#define LOWBITS(v, n) ((n) >= 32 ? (v) : ((v) & ((1u << (n)) - 1)))
void SymbolBitEncoder_EncodeLeastSignificantBits32(struct SymbolBitCoder *self, int nbits, uint32_t value)
__CPROVER_requires(SB_FRESH(self) && self->symbols_.size < self->symbols_.cap && nbits >= 1 && nbits <= 32)
__CPROVER_ensures(self->symbols_.size == __CPROVER_old(self->symbols_.size) + 1 && self->symbols_.data[self->symbols_.size - 1] == LOWBITS(value, nbits))
__CPROVER_assigns(self->symbols_.size, __CPROVER_object_whole(self->symbols_.data));
/* reading: the last stored symbol, reduced to nbits; C17: reading past the written data yields zero and touches no memory outside the vector */
void SymbolBitDecoder_DecodeLeastSignificantBits32(struct SymbolBitCoder *self, int nbits, uint32_t *value)
__CPROVER_requires(SB_FRESH(self) && nbits >= 1 && nbits <= 32 && __CPROVER_is_fresh(value, 4))
__CPROVER_ensures(__CPROVER_old(self->symbols_.size) == 0 ? (*value == 0 && self->symbols_.size == 0) : \
                  (self->symbols_.size == __CPROVER_old(self->symbols_.size) - 1 && *value == LOWBITS(self->symbols_.data[self->symbols_.size], nbits)))
__CPROVER_assigns(self->symbols_.size, *value);
bool DecodeSymbols(uint32_t num_values, int num_components, struct DecoderBuffer *src_buffer, uint32_t *out_values);
/* rbit.write_order: the rABS writer seen by RAnsBitEncoder::EndEncoding's bit loops is a ghost LIFO (listed rewrite rabs_write -> rabs_write_sink) */
void rabs_write_sink(struct AnsCoder *ans, int val, AnsP8 p0);

#ifdef VERIF_CBMC
#include "core_helpers.h"
#include "core_slice.c"
#include "ans_slice.c"
#include "bitcoders_slice.c"
#include "bitcoders2_slice.c"
void vec_w32_resize_alloc(struct DirectBitDecoder *self, uint32_t n) { __CPROVER_assert(n <= self->bits_.cap, "stub: vector model capacity"); for (uint32_t i = self->bits_.size; i < n; ++i) self->bits_.data[i] = 0; self->bits_.size = n; }
void SubEnc_EncodeBit(struct SubEnc *e, bool bit) { e->count++; e->last = bit ? 1 : 0; }
bool SubDec_DecodeNextBit(struct SubDec *d) { d->count++; return (d->next & 1) != 0; }
/* DecodeSymbols stand-in of symbolbit.rt: delivers the symbols the encoder stored (lossless symbol coding is C08) */
uint32_t sb_stream[4]; uint32_t sb_stream_n;
bool DecodeSymbols(uint32_t num_values, int num_components, struct DecoderBuffer *src_buffer, uint32_t *out_values) {
  if (num_values != sb_stream_n) return false;
  for (uint32_t i = 0; i < 4; ++i) if (i < num_values) out_values[i] = sb_stream[i];
  return true;
}

void h_enf_clamp_probability(void) { AGHOSTS(); double p; clamp_probability(p); HARNESS_END(); }
void h_enf_update_probability(void) { AGHOSTS(); double p; bool b;
#ifdef UP_BIT
  __CPROVER_assume(b == (UP_BIT != 0));
#endif
  update_probability(p, b); HARNESS_END(); }
void h_enf_AdaptiveRAnsBitDecoder_Clear(void) { AGHOSTS(); struct AdaptiveRAnsBitDecoder *d; AdaptiveRAnsBitDecoder_Clear(d); HARNESS_END(); }
void h_enf_AdaptiveRAnsBitDecoder_StartDecoding(void) { AGHOSTS(); struct AdaptiveRAnsBitDecoder *d; struct DecoderBuffer *b; AdaptiveRAnsBitDecoder_StartDecoding(d, b); HARNESS_END(); }
void h_enf_AdaptiveRAnsBitDecoder_DecodeNextBit(void) { AGHOSTS(); struct AdaptiveRAnsBitDecoder *d; AdaptiveRAnsBitDecoder_DecodeNextBit(d); HARNESS_END(); }
void h_enf_AdaptiveRAnsBitDecoder_DecodeLeastSignificantBits32(void) { AGHOSTS(); struct AdaptiveRAnsBitDecoder *d; int n; uint32_t *v; AdaptiveRAnsBitDecoder_DecodeLeastSignificantBits32(d, n, v); HARNESS_END(); }
void h_enf_FoldedBit32Encoder_EncodeLeastSignificantBits32(void) { AGHOSTS(); struct FoldedBit32Encoder *e; int n; uint32_t v; FoldedBit32Encoder_EncodeLeastSignificantBits32(e, n, v); HARNESS_END(); }
void h_enf_FoldedBit32Decoder_DecodeLeastSignificantBits32(void) { AGHOSTS(); struct FoldedBit32Decoder *d; int n; uint32_t *v; FoldedBit32Decoder_DecodeLeastSignificantBits32(d, n, v); HARNESS_END(); }
void h_enf_FoldedBit32Decoder_StartDecoding(void) { AGHOSTS(); struct FoldedBit32Decoder *d; struct DecoderBuffer *b; FoldedBit32Decoder_StartDecoding(d, b); HARNESS_END(); }
void h_enf_SymbolBitEncoder_EncodeLeastSignificantBits32(void) { AGHOSTS(); struct SymbolBitCoder *s; int n; uint32_t v; SymbolBitEncoder_EncodeLeastSignificantBits32(s, n, v); HARNESS_END(); }
void h_enf_SymbolBitDecoder_DecodeLeastSignificantBits32(void) { AGHOSTS(); struct SymbolBitCoder *s; int n; uint32_t *v; SymbolBitDecoder_DecodeLeastSignificantBits32(s, n, v); HARNESS_END(); }

/* adaptive.sync (C17): encoder and decoder run the SAME probability model.  For every model state p in [0,1] and every bit: the probability
 * the encoder's forward pass stores for that bit equals the probability the decoder hands to rabs_read, and both move to the same next
 * state; both start from the same state (encoder: literal in EndEncoding; decoder: constructor and Clear).  With ans.rabs.step (write/read
 * inverse for every state and every probability 1..255) this gives, by induction over the bit sequence, the adaptive coder round trip. */
int sync_bit; uint8_t sync_p0_seen; int sync_reads;
int rabs_read_ghost(struct AnsDecoder *ans, AnsP8 p0) { sync_p0_seen = p0; sync_reads++; return sync_bit; }
void h_adaptive_sync(void) {
  AGHOSTS();
  double p; bool bit; __CPROVER_assume(0.0 <= p && p <= 1.0);
#ifdef SYNC_BIT
  __CPROVER_assume(bit == (SYNC_BIT != 0));
#endif
  double pe = p; uint8_t p0_enc; AdaptiveRAnsBitEncoder_forward_step(&pe, bit, &p0_enc);
  struct AdaptiveRAnsBitDecoder d; d.p0_f_ = p; d.ans_decoder_.state = ANS_LB; d.ans_decoder_.buf = 0; d.ans_decoder_.buf_offset = 0;
  sync_bit = bit; sync_reads = 0;
  bool got = AdaptiveRAnsBitDecoder_DecodeNextBit(&d);        /* the real decoder step; its rabs_read is the ghost reader (returns `bit`, records the probability) */
  __CPROVER_assert(sync_reads == 1 && got == bit, "adaptive.sync.one_read_per_bit");
  __CPROVER_assert(p0_enc == sync_p0_seen, "adaptive.sync.same_probability_for_the_bit");
  __CPROVER_assert(pe == d.p0_f_, "adaptive.sync.same_next_model_state");
  __CPROVER_assert(p0_enc >= 1, "adaptive.sync.probability_codable");
  __CPROVER_assert((double)(ADAPTIVE_ENC_P0_INIT) == (double)(ADAPTIVE_DEC_P0_CTOR), "adaptive.sync.same_initial_state_ctor");
  AdaptiveRAnsBitDecoder_Clear(&d);
  __CPROVER_assert(d.p0_f_ == (double)(ADAPTIVE_ENC_P0_INIT), "adaptive.sync.same_initial_state_clear");
  HARNESS_END();
}

/* folded.rt (C17): a value of nbits (1..32) routed by the encoder to the per-position sub-encoders and read back from sub-decoders that
 * return, position by position, what the matching sub-encoder received, is the value reduced to nbits; each used position is touched
 * exactly once on both sides and no other position at all. */
void h_folded_rt(void) {
  AGHOSTS();
  int nbits; uint32_t value; __CPROVER_assume(nbits >= 1 && nbits <= 32);
  struct FoldedBit32Encoder e; struct FoldedBit32Decoder d;
  for (int i = 0; i < 32; ++i) { e.folded_number_encoders_[i].count = 0; e.folded_number_encoders_[i].last = 0; }
  e.bit_encoder_.count = 0; e.bit_encoder_.last = 0;
  FoldedBit32Encoder_EncodeLeastSignificantBits32(&e, nbits, value);
  for (int i = 0; i < 32; ++i) { d.folded_number_decoders_[i].count = 0; d.folded_number_decoders_[i].started = 0; d.folded_number_decoders_[i].next = e.folded_number_encoders_[i].last; }
  d.bit_decoder_.count = 0; d.bit_decoder_.next = 0; d.bit_decoder_.started = 0;
  uint32_t out = 0xdeadbeefu; FoldedBit32Decoder_DecodeLeastSignificantBits32(&d, nbits, &out);
  __CPROVER_assert(out == LOWBITS(value, nbits), "folded.rt.value");
  int k; __CPROVER_assume(k >= 0 && k < 32);
  __CPROVER_assert(e.folded_number_encoders_[k].count == (k < nbits ? 1u : 0u) && d.folded_number_decoders_[k].count == (k < nbits ? 1u : 0u), "folded.rt.each_position_once");
  __CPROVER_assert(e.bit_encoder_.count == 0 && d.bit_decoder_.count == 0, "folded.rt.plain_bit_coder_untouched");
  HARNESS_END();
}

/* symbolbit.rt (C17): three values of arbitrary widths stored by SymbolBitEncoder come back, in the same order and reduced to their width,
 * from SymbolBitDecoder (StartDecoding reverses the decoded symbols so that back() is the first one); a fourth read yields 0. */
void h_symbolbit_rt(void) {
  AGHOSTS();
  int n1, n2, n3; uint32_t v1, v2, v3; __CPROVER_assume(n1 >= 1 && n1 <= 32 && n2 >= 1 && n2 <= 32 && n3 >= 1 && n3 <= 32);
  uint32_t es[4] = {0, 0, 0, 0}; struct SymbolBitCoder e; e.symbols_.data = es; e.symbols_.size = 0; e.symbols_.cap = 4;
  SymbolBitEncoder_EncodeLeastSignificantBits32(&e, n1, v1); SymbolBitEncoder_EncodeLeastSignificantBits32(&e, n2, v2); SymbolBitEncoder_EncodeLeastSignificantBits32(&e, n3, v3);
  /* EndEncoding: count as uint32, then EncodeSymbols(symbols_) -- the symbol codec is C08; here its decoder stand-in returns the stored symbols */
  for (int i = 0; i < 4; ++i) sb_stream[i] = es[i]; sb_stream_n = (uint32_t)e.symbols_.size;
  char bytes[4]; bytes[0] = (char)sb_stream_n; bytes[1] = bytes[2] = bytes[3] = 0;
  struct DecoderBuffer db; db.data_ = bytes; db.data_size_ = 4; db.pos_ = 0; db.bit_mode_ = false; db.bitstream_version_ = 0x0202;
  uint32_t ds[4] = {0, 0, 0, 0}; struct SymbolBitCoder d; d.symbols_.data = ds; d.symbols_.size = 0; d.symbols_.cap = 4;
  bool ok = SymbolBitDecoder_StartDecoding(&d, &db);
  __CPROVER_assert(ok && d.symbols_.size == 3, "symbolbit.rt.start");
  uint32_t o1 = 7, o2 = 7, o3 = 7, o4 = 7;
  SymbolBitDecoder_DecodeLeastSignificantBits32(&d, n1, &o1); SymbolBitDecoder_DecodeLeastSignificantBits32(&d, n2, &o2); SymbolBitDecoder_DecodeLeastSignificantBits32(&d, n3, &o3);
  __CPROVER_assert(o1 == LOWBITS(v1, n1) && o2 == LOWBITS(v2, n2) && o3 == LOWBITS(v3, n3), "symbolbit.rt.values_in_order");
  SymbolBitDecoder_DecodeLeastSignificantBits32(&d, n1, &o4);
  __CPROVER_assert(o4 == 0, "symbolbit.rt.read_past_end_yields_zero");
  HARNESS_END();
}

/* rbit.zero_prob (C17): for every pair of bit counts the probability byte RAnsBitEncoder::EndEncoding stores is in 1..255 (rABS cannot code
 * with 0), the conversion from double is defined, and it is the rounded share of zero bits */
void h_rbit_zero_prob(void) {
  AGHOSTS();
  uint64_t c[2]; __CPROVER_assume(c[0] <= ((uint64_t)1 << 40) && c[1] <= ((uint64_t)1 << 40));
  struct RAnsBitEncoder e; e.bit_counts_.data = c; e.bit_counts_.size = 2; e.bit_counts_.cap = 2; e.bits_.data = 0; e.bits_.size = 0; e.bits_.cap = 0; e.local_bits_ = 0; e.num_local_bits_ = 0;
  uint8_t z = RAnsBitEncoder_zero_prob(&e);
  __CPROVER_assert(z >= 1, "rbit.zero_prob.codable");
  __CPROVER_assert(c[0] != 0 || z == 1, "rbit.zero_prob.no_zero_bits_gives_minimum");
  __CPROVER_assert(c[1] != 0 || c[0] == 0 || z == 255, "rbit.zero_prob.only_zero_bits_gives_maximum");
  __CPROVER_assert(c[0] != c[1] || c[0] == 0 || z == 128, "rbit.zero_prob.balanced_gives_half");
  HARNESS_END();
}

/* rbit.write_order (C17): EndEncoding hands the stored bits to the rABS writer in exactly the reverse of the order in which EncodeBit
 * received them (rABS is a stack: the decoder pops them in the original order).  The writer is a ghost LIFO; 1 flushed word + k local bits. */
uint8_t wo_stack[64]; int wo_n; uint8_t wo_prob_seen; int wo_prob_mismatch;
void rabs_write_sink(struct AnsCoder *ans, int val, AnsP8 p0) { __CPROVER_assert(wo_n < 64, "stub: LIFO capacity"); __CPROVER_assert(val == 0 || val == 1, "rbit.write_order.bit_is_0_or_1"); wo_stack[wo_n++] = (uint8_t)val; if (p0 != wo_prob_seen) wo_prob_mismatch = 1; }
void h_rbit_write_order(void) {
  AGHOSTS();
  uint32_t word, local; uint32_t k; uint8_t zp; __CPROVER_assume(k < 32);
  uint32_t ws[1]; ws[0] = word; uint64_t c[2] = {0, 0};
  struct RAnsBitEncoder e; e.bit_counts_.data = c; e.bit_counts_.size = 2; e.bit_counts_.cap = 2; e.bits_.data = ws; e.bits_.size = 1; e.bits_.cap = 1; e.local_bits_ = local; e.num_local_bits_ = k;
  struct AnsCoder ac; ac.buf = 0; ac.buf_offset = 0; ac.state = ANS_LB;
  wo_n = 0; wo_prob_seen = zp; wo_prob_mismatch = 0;
  RAnsBitEncoder_write_bits(&e, &ac, zp);
  __CPROVER_assert(wo_n == 32 + (int)k, "rbit.write_order.every_stored_bit_written_once");
  __CPROVER_assert(!wo_prob_mismatch, "rbit.write_order.same_probability_for_every_bit");
  /* EncodeBit stores bit number j of the sequence at bit j%32 of word j/32 (LSB first; see bitcoders.rbit.pack); popping the LIFO must give j = 0, 1, 2 ... */
  int j; __CPROVER_assume(j >= 0 && j < 32 + (int)k);
  uint8_t expected = j < 32 ? (uint8_t)((word >> j) & 1) : (uint8_t)((local >> (j - 32)) & 1);
  __CPROVER_assert(wo_stack[wo_n - 1 - j] == expected, "rbit.write_order.lifo_pops_bits_in_encode_order");
  HARNESS_END();
}
#endif
