/* Hand-written stand-ins used by the listed rewrites of unit 'pred' (rule R-point2, DESIGN.md 3.1):
 * VectorD<int32_t,2> value semantics: Point2(a,b), component-wise operator- and operator+ in int32 (plain signed arithmetic,
 * exactly as VectorD::operator-/+ do), and std::abs on int32 (UB on INT32_MIN, kept as an overflow obligation). */
#ifndef PRED_HELPERS_H
#define PRED_HELPERS_H
static inline Point2 P2(int32_t a, int32_t b) { Point2 p; p.v[0] = a; p.v[1] = b; return p; }
static inline Point2 P2_sub(Point2 a, Point2 b) { Point2 r; r.v[0] = a.v[0] - b.v[0]; r.v[1] = a.v[1] - b.v[1]; return r; }
static inline Point2 P2_add(Point2 a, Point2 b) { Point2 r; r.v[0] = a.v[0] + b.v[0]; r.v[1] = a.v[1] + b.v[1]; return r; }
static inline int32_t draco_abs_i32(int32_t x) { return x < 0 ? -x : x; }
int MostSignificantBit(uint32_t n);
static inline int MostSignificantBit_model(uint32_t n) { return MostSignificantBit(n); }
#endif
