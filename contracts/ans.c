/* Unit 'ans': rABS/rANS primitives (C17, C08, C05, C02). Bodies sliced into ans_slice.c. */
#include "core_contracts.h"
#include "vec_ans.h"
#include <stdlib.h>
#ifndef RANS_P
#define RANS_P 12
#endif
#define rans_precision_bits_t RANS_P
#include "ans_types.h"

uint32_t ghost_sym, ghost_rem;
#ifdef VERIF_CBMC
#define AGHOSTS() do { GHOSTS(); ghost_sym = nondet_u32(); ghost_rem = nondet_u32(); } while (0)
#else
#define AGHOSTS() ((void)0)
#endif

/* vector resize stubs: contract only */
void vec_u32_resize(struct vec_u32 *v, size_t n)
__CPROVER_requires(n <= v->cap)
__CPROVER_ensures(v->size == n)
__CPROVER_assigns(v->size, __CPROVER_object_whole(v->data));
void vec_sym_resize(struct vec_sym *v, size_t n)
__CPROVER_requires(n <= v->cap)
__CPROVER_ensures(v->size == n)
__CPROVER_assigns(v->size, __CPROVER_object_whole(v->data));

/* ------------------------------------------------------------------ fastdiv: exact division for the rABS operand range */
#define ANS_LB ((uint32_t)DRACO_ANS_L_BASE)
#define ANS_TOP ((uint32_t)DRACO_ANS_L_BASE * (uint32_t)DRACO_ANS_IO_BASE)
unsigned fastdiv(unsigned x, int y)
__CPROVER_requires(1 <= y && y <= 255 && x < ANS_TOP)
__CPROVER_ensures(__CPROVER_return_value == x / (unsigned)y)
__CPROVER_assigns();

/* ------------------------------------------------------------------ little-endian helpers */
uint32_t mem_get_le16(const void *vmem) __CPROVER_requires(__CPROVER_is_fresh(vmem, 2)) __CPROVER_ensures(__CPROVER_return_value == LE16((const uint8_t *)vmem)) __CPROVER_assigns();
uint32_t mem_get_le24(const void *vmem) __CPROVER_requires(__CPROVER_is_fresh(vmem, 3))
  __CPROVER_ensures(__CPROVER_return_value == ((uint32_t)LE16((const uint8_t *)vmem) | ((uint32_t)((const uint8_t *)vmem)[2] << 16))) __CPROVER_assigns();
uint32_t mem_get_le32(const void *vmem) __CPROVER_requires(__CPROVER_is_fresh(vmem, 4)) __CPROVER_ensures(__CPROVER_return_value == LE32((const uint8_t *)vmem)) __CPROVER_assigns();

/* ------------------------------------------------------------------ decoder-side state invariants
 * AnsDecoder: buf valid for buf_offset bytes (the reader walks DOWN from buf_offset), 0 <= buf_offset. */
#define AD_MAX (1 << 30)
#define AD_FRESH(a) (__CPROVER_is_fresh(a, sizeof(struct AnsDecoder)) && (a)->buf_offset >= 0 && (a)->buf_offset <= AD_MAX && __CPROVER_is_fresh((a)->buf, (size_t)(a)->buf_offset))
int rabs_desc_read(struct AnsDecoder *ans, AnsP8 p0)
__CPROVER_requires(AD_FRESH(ans) && ans->state < ANS_TOP)
__CPROVER_ensures(__CPROVER_return_value == 0 || __CPROVER_return_value == 1)
__CPROVER_ensures(0 <= ans->buf_offset && ans->buf_offset <= __CPROVER_old(ans->buf_offset) && ans->buf_offset >= __CPROVER_old(ans->buf_offset) - 1)
__CPROVER_ensures(ans->state < ANS_TOP)
__CPROVER_assigns(ans->state, ans->buf_offset);

int ans_read_init(struct AnsDecoder *const ans, const uint8_t *const buf, int offset)
__CPROVER_requires(__CPROVER_is_fresh(ans, sizeof(struct AnsDecoder)) && offset <= AD_MAX && (offset < 1 || __CPROVER_is_fresh(buf, (size_t)offset)))
__CPROVER_ensures(__CPROVER_return_value == 0 || __CPROVER_return_value == 1)
__CPROVER_ensures(__CPROVER_return_value == 0 ==> (ans->buf == buf && 0 <= ans->buf_offset && ans->buf_offset < offset && ans->buf_offset >= offset - 3 && ANS_LB <= ans->state && ans->state < ANS_TOP))
__CPROVER_assigns(ans->buf, ans->buf_offset, ans->state);

/* RAnsDecoder<P>: lut_table_ has rans_precision entries, each < number of symbols; probability_table_ has that many entries. */
#define RD_TOP ((uint32_t)l_rans_base * (uint32_t)DRACO_ANS_IO_BASE)
#define RD_NSYM_MAX ((size_t)1 << 20)
#define RD_FRESH(d) (__CPROVER_is_fresh(d, sizeof(struct RAnsDecoder)) && (d)->ans_.buf_offset >= 0 && (d)->ans_.buf_offset <= AD_MAX && __CPROVER_is_fresh((d)->ans_.buf, (size_t)(d)->ans_.buf_offset) && \
   (d)->lut_table_.size >= (size_t)rans_precision && (d)->lut_table_.size <= ((size_t)1 << 21) && __CPROVER_is_fresh((d)->lut_table_.data, (d)->lut_table_.size * 4) && \
   (d)->probability_table_.size >= 1 && (d)->probability_table_.size <= RD_NSYM_MAX && __CPROVER_is_fresh((d)->probability_table_.data, (d)->probability_table_.size * sizeof(struct rans_sym)))
void RAnsDecoder_fetch_sym(struct RAnsDecoder *self, struct rans_dec_sym *out, uint32_t rem)
__CPROVER_requires(RD_FRESH(self) && __CPROVER_is_fresh(out, sizeof(struct rans_dec_sym)) && rem < (uint32_t)rans_precision && self->lut_table_.data[rem] < self->probability_table_.size)
__CPROVER_ensures(out->val == self->lut_table_.data[rem] && out->prob == self->probability_table_.data[out->val].prob && out->cum_prob == self->probability_table_.data[out->val].cum_prob)
__CPROVER_assigns(*out);
/* rans_read on arbitrary state/bytes: memory safe given the LUT range invariant "every slot holds a valid symbol index".
 * The invariant is a forall over slots; CBMC's back ends cannot use a quantified precondition here (SAT: spurious, cvc5: parse error,
 * z3: timeout), so it is stated for the ghost slot ghost_rem and the slicer inserts the PROPHECY assumption `rem == ghost_rem` in
 * front of the LUT access (listed rewrite in units/ans.py): for every real execution exactly one value of the unconstrained ghost is
 * consistent, so no execution is pruned; the forall-instantiation at r = rem is the only step taken on paper. */
int RAnsDecoder_rans_read(struct RAnsDecoder *self)
__CPROVER_requires(RD_FRESH(self) && self->ans_.state < RD_TOP)
__CPROVER_requires(ghost_rem >= (uint32_t)rans_precision || self->lut_table_.data[ghost_rem] < self->probability_table_.size)
__CPROVER_ensures(0 <= self->ans_.buf_offset && self->ans_.buf_offset <= __CPROVER_old(self->ans_.buf_offset))
__CPROVER_assigns(self->ans_.state, self->ans_.buf_offset);

/* rans_build_look_up_table (unbounded in num_symbols; loop contracts):
 * true => sum(prob) == 2^P and, for every slot r (ghost_rem), lut[r] is a symbol whose interval [cum, cum+prob) contains r. */
bool RAnsDecoder_rans_build_look_up_table(struct RAnsDecoder *self, const uint32_t token_probs[], uint32_t num_symbols)
__CPROVER_requires(__CPROVER_is_fresh(self, sizeof(struct RAnsDecoder)) && num_symbols <= RD_NSYM_MAX && __CPROVER_is_fresh(token_probs, (size_t)(num_symbols ? num_symbols : 1) * 4))
__CPROVER_requires(self->lut_table_.cap >= (size_t)rans_precision && self->lut_table_.cap <= ((size_t)1 << 21) && __CPROVER_is_fresh(self->lut_table_.data, self->lut_table_.cap * 4))
__CPROVER_requires(self->probability_table_.cap >= num_symbols && self->probability_table_.cap <= RD_NSYM_MAX && __CPROVER_is_fresh(self->probability_table_.data, (self->probability_table_.cap ? self->probability_table_.cap : 1) * sizeof(struct rans_sym)))
__CPROVER_requires(ghost_sym >= num_symbols || token_probs[ghost_sym] < (1u << 22))
__CPROVER_ensures(self->lut_table_.size == (size_t)rans_precision && self->probability_table_.size == num_symbols)
__CPROVER_ensures((__CPROVER_return_value && ghost_rem < (uint32_t)rans_precision) ==> (self->lut_table_.data[ghost_rem] < num_symbols && \
    self->probability_table_.data[self->lut_table_.data[ghost_rem]].cum_prob <= ghost_rem && \
    ghost_rem < self->probability_table_.data[self->lut_table_.data[ghost_rem]].cum_prob + self->probability_table_.data[self->lut_table_.data[ghost_rem]].prob))
__CPROVER_ensures((__CPROVER_return_value && ghost_sym < num_symbols) ==> self->probability_table_.data[ghost_sym].prob == token_probs[ghost_sym])
__CPROVER_assigns(self->lut_table_.size, self->probability_table_.size, __CPROVER_object_whole(self->lut_table_.data), __CPROVER_object_whole(self->probability_table_.data));

#ifdef VERIF_CBMC
#include "ans_slice.c"
#endif

/* ------------------------------------------------------------------ harnesses */
#ifdef VERIF_CBMC
void h_enf_fastdiv(void) { AGHOSTS(); unsigned x; int y;
#ifdef FD_Y_LO
  __CPROVER_assume(y >= FD_Y_LO && y <= FD_Y_HI);
#endif
  fastdiv(x, y); HARNESS_END(); }
void h_enf_mem_get_le16(void) { AGHOSTS(); const void *p; mem_get_le16(p); HARNESS_END(); }
void h_enf_mem_get_le24(void) { AGHOSTS(); const void *p; mem_get_le24(p); HARNESS_END(); }
void h_enf_mem_get_le32(void) { AGHOSTS(); const void *p; mem_get_le32(p); HARNESS_END(); }
void h_enf_rabs_desc_read(void) { AGHOSTS(); struct AnsDecoder *a; AnsP8 p; rabs_desc_read(a, p); HARNESS_END(); }
void h_enf_ans_read_init(void) { AGHOSTS(); struct AnsDecoder *a; const uint8_t *b; int o; ans_read_init(a, b, o); HARNESS_END(); }
void h_enf_RAnsDecoder_fetch_sym(void) { AGHOSTS(); struct RAnsDecoder *d; struct rans_dec_sym *o; uint32_t r; RAnsDecoder_fetch_sym(d, o, r); HARNESS_END(); }
void h_enf_RAnsDecoder_rans_read(void) { AGHOSTS(); struct RAnsDecoder *d; RAnsDecoder_rans_read(d); HARNESS_END(); }
void h_enf_RAnsDecoder_rans_build_look_up_table(void) { AGHOSTS(); struct RAnsDecoder *d; const uint32_t *t; uint32_t n; RAnsDecoder_rans_build_look_up_table(d, t, n); HARNESS_END(); }
#endif

/* rans.read_init.safe.P (C02): read_init on ARBITRARY bytes and any offset 0..n (n symbolic).
 * Precondition surfaced by the proof (DESIGN.md 5, C08): for tag 3 the code reads buf[offset-4] without checking offset >= 4, so three
 * readable bytes must precede buf.  Both call sites reach it after >= 3 stream bytes were consumed from the same buffer; this is an
 * ASSUMED caller-history precondition, modelled here by buf = mem + 3. */
#ifdef VERIF_CBMC
void h_rans_read_init_safe(void) {
  size_t n; int offset; __CPROVER_assume(n <= ((size_t)1 << 30) && offset <= (int)n);
  uint8_t *mem = malloc(n + 3); __CPROVER_assume(mem != 0);
  const uint8_t *buf = mem + 3;
  struct RAnsDecoder d; d.ans_.buf = 0; d.ans_.buf_offset = 0; d.ans_.state = 0;
  int rc = RAnsDecoder_read_init(&d, buf, offset);
  __CPROVER_assert(rc == 0 || rc == 1, "rans.read_init.safe.returns_0_or_1");
  __CPROVER_assert(rc != 0 || (d.ans_.buf == buf && d.ans_.buf_offset < offset && d.ans_.buf_offset >= offset - 4 && d.ans_.state >= (uint32_t)l_rans_base && d.ans_.state < RD_TOP), "rans.read_init.safe.state_in_range_on_success");
  __CPROVER_assert(offset >= 1 || rc == 1, "rans.read_init.safe.empty_payload_rejected");
  HARNESS_END();
}
#endif

/* rabs.step (C17): for every state in [L, L*IO), every probability p0 in [P0_LO, P0_HI] (jobs tile 1..255) and both bit values:
 * the writer keeps the state in range and emits at most one byte; the reader, given exactly that byte, returns the bit and restores
 * the writer's entry state. fastdiv is used through its contract. */
#ifndef P0_LO
#define P0_LO 1
#define P0_HI 255
#endif
void h_rabs_step(void) {
  NONDET(uint32_t, state); NONDET(uint8_t, p0); NONDET(int32_t, val);
  ASSUME(state >= ANS_LB && state < ANS_TOP && p0 >= P0_LO && p0 <= P0_HI && (val == 0 || val == 1));
  uint8_t buf[2] = {0xAA, 0xBB};
  struct AnsCoder w; w.buf = buf; w.buf_offset = 0; w.state = state;
  rabs_desc_write(&w, val, p0);
  ASSERT(w.buf_offset == 0 || w.buf_offset == 1, "rabs.step.at_most_one_byte");
  ASSERT(w.state >= ANS_LB && w.state < ANS_TOP, "rabs.step.writer_state_in_range");
  struct AnsDecoder r; r.buf = buf; r.buf_offset = w.buf_offset; r.state = w.state;
  int bit = rabs_desc_read(&r, p0);
  ASSERT(bit == val, "rabs.step.bit");
  /* the reader ends in the state the writer had after its optional renormalisation; absorbing the emitted byte restores the entry state */
  uint32_t s = r.state; int off = r.buf_offset;
  if (s < ANS_LB && off > 0) { s = s * DRACO_ANS_IO_BASE + buf[--off]; }
  ASSERT(s == state && off == 0, "rabs.step.state_restored");
  HARNESS_END();
}

/* ans.header (C17/C05): ans_write_end / ans_read_init are inverse for every final state; layout is the frozen 2-bit tag format. */
void h_ans_header(void) {
  NONDET(uint32_t, state); NONDET(uint32_t, pre);
  ASSUME(state >= ANS_LB && state < ANS_TOP && pre <= 2);
  uint8_t buf[8] = {1, 2, 3, 4, 5, 6, 7, 8};
  struct AnsCoder w; w.buf = buf; w.buf_offset = (int)pre; w.state = state;
  int end = ans_write_end(&w);
  uint32_t s0 = state - ANS_LB;
  ASSERT(end == (int)pre + (s0 < 64 ? 1 : s0 < 16384 ? 2 : 3), "ans.header.length");
  ASSERT((buf[end - 1] >> 6) == (s0 < 64 ? 0 : s0 < 16384 ? 1 : 2), "ans.header.tag_in_last_byte");
  struct AnsDecoder r; r.buf = 0; r.buf_offset = -1; r.state = 0;
  int rc = ans_read_init(&r, buf, end);
  ASSERT(rc == 0 && r.state == state && r.buf_offset == (int)pre && r.buf == buf, "ans.header.roundtrip");
  HARNESS_END();
}

/* rans.header.P: RAnsEncoder<P>::write_end / RAnsDecoder<P>::read_init inverse for every state in [l_rans_base, l_rans_base*256). */
void h_rans_header(void) {
  NONDET(uint32_t, state); NONDET(uint32_t, pre);
  ASSUME(state >= (uint32_t)l_rans_base && state < RD_TOP && pre <= 2);
  uint8_t mem[12] = {9, 9, 9, 1, 2, 3, 4, 5, 6, 7, 8, 9}; uint8_t *buf = mem + 3;
  struct RAnsEncoder e; e.ans_.buf = buf; e.ans_.buf_offset = (int)pre; e.ans_.state = state;
  int end = RAnsEncoder_write_end(&e);
  uint32_t s0 = state - (uint32_t)l_rans_base;
  ASSERT(end == (int)pre + (s0 < 64 ? 1 : s0 < 16384 ? 2 : s0 < (1u << 22) ? 3 : 4), "rans.header.length");
  ASSERT((buf[end - 1] >> 6) == (s0 < 64 ? 0 : s0 < 16384 ? 1 : s0 < (1u << 22) ? 2 : 3), "rans.header.tag_in_last_byte");
  struct RAnsDecoder d; d.ans_.buf = 0; d.ans_.buf_offset = -1; d.ans_.state = 0;
  int rc = RAnsDecoder_read_init(&d, buf, end);
  ASSERT(rc == 0 && d.ans_.state == state && d.ans_.buf_offset == (int)pre && d.ans_.buf == buf, "rans.header.roundtrip");
  HARNESS_END();
}

/* rans.step.P (C08): one symbol with (prob, cum_prob), cum_prob + prob <= 2^P: rans_write keeps the state in range, emits <= 2 bytes;
 * the decoder's slot rem lies in [cum, cum+prob) and its update restores the writer's post-renormalisation state; absorbing the
 * emitted bytes restores the entry state. */
void h_rans_step(void) {
  NONDET(uint32_t, state); NONDET(uint32_t, prob); NONDET(uint32_t, cum);
  ASSUME(state >= (uint32_t)l_rans_base && state < RD_TOP && prob >= 1 && prob <= (uint32_t)rans_precision && cum <= (uint32_t)rans_precision - prob);
#ifdef RS_PROB_LO
  ASSUME(prob >= RS_PROB_LO && prob <= RS_PROB_HI);
#endif
  uint8_t buf[4] = {0, 0, 0, 0};
  struct RAnsEncoder e; e.ans_.buf = buf; e.ans_.buf_offset = 0; e.ans_.state = state;
  struct rans_sym sym; sym.prob = prob; sym.cum_prob = cum;
  RAnsEncoder_rans_write(&e, &sym);
  ASSERT(e.ans_.buf_offset >= 0 && e.ans_.buf_offset <= 2, "rans.step.at_most_two_bytes");
  ASSERT(e.ans_.state >= (uint32_t)l_rans_base && e.ans_.state < RD_TOP, "rans.step.writer_state_in_range");
  uint32_t quo = e.ans_.state / (uint32_t)rans_precision, rem = e.ans_.state % (uint32_t)rans_precision;
  ASSERT(rem >= cum && rem < cum + prob, "rans.step.slot_in_symbol_interval");
  uint32_t s = quo * prob + rem - cum; int off = e.ans_.buf_offset;   /* the update rans_read performs with the symbol found through the LUT */
  while (s < (uint32_t)l_rans_base && off > 0) { s = s * DRACO_ANS_IO_BASE + buf[--off]; }
  ASSERT(s == state && off == 0, "rans.step.state_restored");
  HARNESS_END();
}
