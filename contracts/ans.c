/* Unit ans: contracts are declared in ans_contracts.h; bodies sliced into ans_slice.c; lemmas below. */
#include "ans_contracts.h"
#ifdef VERIF_CBMC
#include "ans_slice.c"
#endif

/* ------------------------------------------------------------------ harnesses */
#ifdef VERIF_CBMC
void h_enf_fastdiv(void) { AGHOSTS(); unsigned x; int y;
#ifdef FD_Y_LO
  __CPROVER_assume(y >= FD_Y_LO && y <= FD_Y_HI);
#endif
  fastdiv(x, y); HARNESS_END(); }
void h_enf_mem_get_le16(void) { AGHOSTS(); const void *p; mem_get_le16(p); HARNESS_END(); }
void h_enf_mem_get_le24(void) { AGHOSTS(); const void *p; mem_get_le24(p); HARNESS_END(); }
void h_enf_mem_get_le32(void) { AGHOSTS(); const void *p; mem_get_le32(p); HARNESS_END(); }
void h_enf_rabs_desc_read(void) { AGHOSTS(); struct AnsDecoder *a; AnsP8 p; rabs_desc_read(a, p); HARNESS_END(); }
void h_enf_ans_read_init(void) { AGHOSTS(); struct AnsDecoder *a; const uint8_t *b; int o; ans_read_init(a, b, o); HARNESS_END(); }
void h_enf_RAnsDecoder_fetch_sym(void) { AGHOSTS(); struct RAnsDecoder *d; struct rans_dec_sym *o; uint32_t r; RAnsDecoder_fetch_sym(d, o, r); HARNESS_END(); }
void h_enf_RAnsDecoder_rans_read(void) { AGHOSTS(); struct RAnsDecoder *d; RAnsDecoder_rans_read(d); HARNESS_END(); }
void h_enf_RAnsDecoder_rans_build_look_up_table(void) { AGHOSTS(); struct RAnsDecoder *d; const uint32_t *t; uint32_t n; RAnsDecoder_rans_build_look_up_table(d, t, n); HARNESS_END(); }
#endif

/* rans.read_init.safe.P (C02): read_init on ARBITRARY bytes and any offset 0..n (n symbolic).
 * Precondition surfaced by the proof (DESIGN.md 5, C08): for tag 3 the code reads buf[offset-4] without checking offset >= 4, so three
 * readable bytes must precede buf.  Both call sites reach it after >= 3 stream bytes were consumed from the same buffer; this is an
 * ASSUMED caller-history precondition, modelled here by buf = mem + 3. */
#ifdef VERIF_CBMC
void h_rans_read_init_safe(void) {
  size_t n; int offset; __CPROVER_assume(n <= ((size_t)1 << 30) && offset <= (int)n);
  uint8_t *mem = malloc(n + 3); __CPROVER_assume(mem != 0);
  const uint8_t *buf = mem + 3;
  struct RAnsDecoder d; d.ans_.buf = 0; d.ans_.buf_offset = 0; d.ans_.state = 0;
  int rc = RAnsDecoder_read_init(&d, buf, offset);
  __CPROVER_assert(rc == 0 || rc == 1, "rans.read_init.safe.returns_0_or_1");
  __CPROVER_assert(rc != 0 || (d.ans_.buf == buf && d.ans_.buf_offset < offset && d.ans_.buf_offset >= offset - 4 && d.ans_.state >= (uint32_t)l_rans_base && d.ans_.state < RD_TOP), "rans.read_init.safe.state_in_range_on_success");
  __CPROVER_assert(offset >= 1 || rc == 1, "rans.read_init.safe.empty_payload_rejected");
  HARNESS_END();
}
#endif

/* rans.lut (C08/C02/C18), explicit-harness form of the rans_build_look_up_table contract (same pre/postconditions, memory provided by
 * malloc with symbolic sizes; loops closed by their loop contracts, resize stubs by contract). */
#ifdef VERIF_CBMC
void h_rans_lut(void) {
  AGHOSTS();
  uint32_t num_symbols; size_t lcap, pcap;
  __CPROVER_assume(num_symbols <= RD_NSYM_MAX && lcap >= (size_t)rans_precision && lcap <= ((size_t)1 << 21) && pcap >= num_symbols && pcap <= RD_NSYM_MAX);
  uint32_t *probs = malloc((size_t)(num_symbols ? num_symbols : 1) * 4); uint32_t *lut = malloc(lcap * 4); struct rans_sym *pt = malloc((pcap ? pcap : 1) * sizeof(struct rans_sym));
  __CPROVER_assume(probs != 0 && lut != 0 && pt != 0);
  struct RAnsDecoder d; d.lut_table_.data = lut; d.lut_table_.size = 0; d.lut_table_.cap = lcap; d.probability_table_.data = pt; d.probability_table_.size = 0; d.probability_table_.cap = pcap;
  d.ans_.buf = 0; d.ans_.buf_offset = 0; d.ans_.state = 0;
  bool ok = RAnsDecoder_rans_build_look_up_table(&d, probs, num_symbols);
  __CPROVER_assert(d.lut_table_.size == (size_t)rans_precision && d.probability_table_.size == num_symbols, "rans.lut.sizes");
  if (ok && ghost_rem < (uint32_t)rans_precision) {
    uint32_t s = lut[ghost_rem];
    __CPROVER_assert(s < num_symbols, "rans.lut.slot_holds_valid_symbol");
    __CPROVER_assert(pt[s].cum_prob <= ghost_rem && ghost_rem - pt[s].cum_prob < pt[s].prob, "rans.lut.slot_inside_symbol_interval");
  }
  if (ok && ghost_sym < num_symbols) __CPROVER_assert(pt[ghost_sym].prob == probs[ghost_sym], "rans.lut.prob_copied");
  HARNESS_END();
}
#endif

/* rabs.step (C17): for every state in [L, L*IO), every probability p0 in [P0_LO, P0_HI] (jobs tile 1..255) and both bit values:
 * the writer keeps the state in range and emits at most one byte; the reader, given exactly that byte, returns the bit and restores
 * the writer's entry state. fastdiv is used through its contract. */
#ifndef P0_LO
#define P0_LO 1
#define P0_HI 255
#endif
void h_rabs_step(void) {
  NONDET(uint32_t, state); NONDET(uint8_t, p0); NONDET(int32_t, val);
  ASSUME(state >= ANS_LB && state < ANS_TOP && p0 >= P0_LO && p0 <= P0_HI && (val == 0 || val == 1));
  uint8_t buf[2] = {0xAA, 0xBB};
  struct AnsCoder w; w.buf = buf; w.buf_offset = 0; w.state = state;
  rabs_desc_write(&w, val, p0);
  ASSERT(w.buf_offset == 0 || w.buf_offset == 1, "rabs.step.at_most_one_byte");
  ASSERT(w.state >= ANS_LB && w.state < ANS_TOP, "rabs.step.writer_state_in_range");
  struct AnsDecoder r; r.buf = buf; r.buf_offset = w.buf_offset; r.state = w.state;
  int bit = rabs_desc_read(&r, p0);
  ASSERT(bit == val, "rabs.step.bit");
  /* the reader ends in the state the writer had after its optional renormalisation; absorbing the emitted byte restores the entry state */
  uint32_t s = r.state; int off = r.buf_offset;
  if (s < ANS_LB && off > 0) { s = s * DRACO_ANS_IO_BASE + buf[--off]; }
  ASSERT(s == state && off == 0, "rabs.step.state_restored");
  HARNESS_END();
}

/* ans.header (C17/C05): ans_write_end / ans_read_init are inverse for every final state; layout is the frozen 2-bit tag format. */
void h_ans_header(void) {
  NONDET(uint32_t, state); NONDET(uint32_t, pre);
  ASSUME(state >= ANS_LB && state < ANS_TOP && pre <= 2);
  uint8_t buf[8] = {1, 2, 3, 4, 5, 6, 7, 8};
  struct AnsCoder w; w.buf = buf; w.buf_offset = (int)pre; w.state = state;
  int end = ans_write_end(&w);
  uint32_t s0 = state - ANS_LB;
  ASSERT(end == (int)pre + (s0 < 64 ? 1 : s0 < 16384 ? 2 : 3), "ans.header.length");
  ASSERT((buf[end - 1] >> 6) == (s0 < 64 ? 0 : s0 < 16384 ? 1 : 2), "ans.header.tag_in_last_byte");
  struct AnsDecoder r; r.buf = 0; r.buf_offset = -1; r.state = 0;
  int rc = ans_read_init(&r, buf, end);
  ASSERT(rc == 0 && r.state == state && r.buf_offset == (int)pre && r.buf == buf, "ans.header.roundtrip");
  HARNESS_END();
}

/* rans.header.P: RAnsEncoder<P>::write_end / RAnsDecoder<P>::read_init inverse for every state in [l_rans_base, l_rans_base*256). */
void h_rans_header(void) {
  NONDET(uint32_t, state); NONDET(uint32_t, pre);
  ASSUME(state >= (uint32_t)l_rans_base && state < RD_TOP && pre <= 2);
  uint8_t mem[12] = {9, 9, 9, 1, 2, 3, 4, 5, 6, 7, 8, 9}; uint8_t *buf = mem + 3;
  struct RAnsEncoder e; e.ans_.buf = buf; e.ans_.buf_offset = (int)pre; e.ans_.state = state;
  int end = RAnsEncoder_write_end(&e);
  uint32_t s0 = state - (uint32_t)l_rans_base;
  ASSERT(end == (int)pre + (s0 < 64 ? 1 : s0 < 16384 ? 2 : s0 < (1u << 22) ? 3 : 4), "rans.header.length");
  ASSERT((buf[end - 1] >> 6) == (s0 < 64 ? 0 : s0 < 16384 ? 1 : s0 < (1u << 22) ? 2 : 3), "rans.header.tag_in_last_byte");
  struct RAnsDecoder d; d.ans_.buf = 0; d.ans_.buf_offset = -1; d.ans_.state = 0;
  int rc = RAnsDecoder_read_init(&d, buf, end);
  ASSERT(rc == 0 && d.ans_.state == state && d.ans_.buf_offset == (int)pre && d.ans_.buf == buf, "rans.header.roundtrip");
  HARNESS_END();
}

/* rans.step.P (C08): one symbol with (prob, cum_prob), cum_prob + prob <= 2^P: rans_write keeps the state in range, emits <= ceil(P/8) bytes (2 for P <= 16, 3 for P = 17..20);
 * the decoder's slot rem lies in [cum, cum+prob) and its update restores the writer's post-renormalisation state; absorbing the
 * emitted bytes restores the entry state. */
void h_rans_step(void) {
  NONDET(uint32_t, state); NONDET(uint32_t, prob); NONDET(uint32_t, cum);
  ASSUME(state >= (uint32_t)l_rans_base && state < RD_TOP && prob >= 1 && prob <= (uint32_t)rans_precision && cum <= (uint32_t)rans_precision - prob);
#ifdef RS_PROB_LO
  ASSUME(prob >= RS_PROB_LO && prob <= RS_PROB_HI);
#endif
  uint8_t buf[4] = {0, 0, 0, 0};
  struct RAnsEncoder e; e.ans_.buf = buf; e.ans_.buf_offset = 0; e.ans_.state = state;
  struct rans_sym sym; sym.prob = prob; sym.cum_prob = cum;
  RAnsEncoder_rans_write(&e, &sym);
  ASSERT(e.ans_.buf_offset >= 0 && e.ans_.buf_offset <= (RANS_P + 7) / 8, "rans.step.at_most_ceil_P_over_8_bytes");   /* state < 2^(P+10), loop exits below 2^10 * prob */
  ASSERT(e.ans_.state >= (uint32_t)l_rans_base && e.ans_.state < RD_TOP, "rans.step.writer_state_in_range");
  uint32_t quo = e.ans_.state / (uint32_t)rans_precision, rem = e.ans_.state % (uint32_t)rans_precision;   /* what rans_read extracts */
  ASSERT(rem >= cum && rem < cum + prob, "rans.step.slot_in_symbol_interval");
  /* s2: the writer's state after its renormalisation loop = entry state with the emitted low bytes shifted out */
  uint32_t s2 = state; for (int k = 0; k < e.ans_.buf_offset; ++k) s2 /= DRACO_ANS_IO_BASE;
#ifndef RS_CUT
  uint32_t s = quo * prob + rem - cum; int off = e.ans_.buf_offset;   /* the update rans_read performs with the symbol found through the LUT */
  while (s < (uint32_t)l_rans_base && off > 0) { s = s * DRACO_ANS_IO_BASE + buf[--off]; }
  ASSERT(s == state && off == 0, "rans.step.state_restored");
#else
  /* The decoder update is quo*prob + (rem - cum): asserting that it equals s2 is the whole step.  (No division is recomputed in the harness:
   * a second divider circuit on the same operands is something SAT back ends cannot relate to the first.) */
  ASSERT(rem - cum < prob && (uint64_t)quo * prob + (rem - cum) == (uint64_t)s2, "rans.step.decoder_update_restores_renormalised_state");
  uint32_t s = s2; int off = e.ans_.buf_offset;
  while (s < (uint32_t)l_rans_base && off > 0) { s = s * DRACO_ANS_IO_BASE + buf[--off]; }
  ASSERT(s == state && off == 0, "rans.step.emitted_bytes_restore_entry_state");
#endif
  HARNESS_END();
}

/* format pins (C05): the constants that define the rABS/rANS bitstream */
void h_fmt_ans_constants(void) {
  ASSERT(DRACO_ANS_L_BASE == 4096u && DRACO_ANS_IO_BASE == 256 && DRACO_ANS_P8_PRECISION == 256u, "fmt.ans.base_constants");
  ASSERT(rans_precision == (1 << RANS_P) && l_rans_base == 4 * (1 << RANS_P), "fmt.rans.l_base_is_four_times_precision");
  HARNESS_END();
}
