/* Hand-written stand-ins for C++ object construction that the slicer rewrites into calls (listed rewrites in
 * units/core.py): `new BitEncoder(data)` and the default constructor of a local EncoderBuffer. */
#ifndef CORE_HELPERS_H
#define CORE_HELPERS_H
static inline struct BitEncoder *BitEncoder_construct(struct BitEncoder *storage, char *data) {
  storage->bit_buffer_ = data; storage->bit_offset_ = 0; return storage; /* BitEncoder(char*): bit_buffer_(data), bit_offset_(0) */
}
static char core_local_store[16];
static inline void EncoderBuffer_construct_local(struct EncoderBuffer *e) {
  /* EncoderBuffer(): empty vector, bit_encoder_reserved_bytes_(false), encode_bit_sequence_size_(false) */
  e->buffer_.data = core_local_store; e->buffer_.size = 0; e->buffer_.cap = sizeof core_local_store;
  e->bit_encoder_ = 0; e->bit_encoder_reserved_bytes_ = 0; e->encode_bit_sequence_size_ = false;
}
#endif
