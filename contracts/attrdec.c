/* Unit 'attrdec' (C02/C03/C18): attribute value decoding above the leaf layer. Bodies sliced into attrdec_slice.c. */
#include "core_contracts.h"
#include <stdlib.h>
#include "attrdec_types.h"

#define SIAD_MAXVALS ((size_t)1 << 28)
/* Ghost model of the object graph around DecodeIntegerValues (bodies below, listed as assumptions): GetNumValueComponents() returns ANY int (a corrupt
 * stream can make the attribute declare anything); PreparePortableAttribute(num_entries, num_components) creates a fresh int32 array of exactly
 * num_entries * num_components values (PointAttribute::Reset); GetPortableAttributeData() is NULL for an empty attribute. */
int SIAD_GetNumValueComponents(struct SIAD *self);
void SIAD_PreparePortableAttribute(struct SIAD *self, int num_entries, int num_components);
int32_t *SIAD_GetPortableAttributeData(struct SIAD *self);
size_t SIAD_portable_data_size(struct SIAD *self);
/* the symbol decoder fills num_values entries of its output array: the array must have them */
bool DecodeSymbols(uint32_t num_values, int num_components, struct DecoderBuffer *src_buffer, uint32_t *out_values)
__CPROVER_requires(DB_INV(src_buffer) && num_components >= 1 && __CPROVER_w_ok(out_values, (size_t)num_values * 4))
__CPROVER_ensures(DB_INV(src_buffer) && src_buffer->pos_ >= __CPROVER_old(src_buffer->pos_))
__CPROVER_assigns(src_buffer->pos_, __CPROVER_object_whole(out_values));
/* prediction scheme (virtual): may read/write exactly `size` values */
bool PS_AreCorrectionsPositive(void *ps) __CPROVER_ensures(1) __CPROVER_assigns();
bool PS_DecodePredictionData(void *ps, struct DecoderBuffer *b) __CPROVER_requires(DB_INV(b)) __CPROVER_ensures(DB_INV(b) && b->pos_ >= __CPROVER_old(b->pos_)) __CPROVER_assigns(b->pos_);
bool PS_ComputeOriginalValues(void *ps, const int32_t *in_corr, int32_t *out_data, int size, int num_components, const uint32_t *entry_to_point_id_map)
__CPROVER_requires(size >= 1 && num_components >= 1 && size % num_components == 0 && __CPROVER_w_ok(out_data, (size_t)size * 4) && __CPROVER_r_ok(in_corr, (size_t)size * 4))
__CPROVER_assigns(__CPROVER_object_whole(out_data));

/* std::vector<PointIndex>::resize */
void pid_resize(struct LinearSequencer *self, size_t n)
__CPROVER_requires(n <= self->out_point_ids.cap)
__CPROVER_ensures(self->out_point_ids.size == n)
__CPROVER_assigns(self->out_point_ids.size, __CPROVER_object_whole(self->out_point_ids.data));
void pid_push_back(struct LinearSequencer *self, uint32_t v)
__CPROVER_requires(self->out_point_ids.size < self->out_point_ids.cap)
__CPROVER_ensures(self->out_point_ids.size == __CPROVER_old(self->out_point_ids.size) + 1 && self->out_point_ids.data[__CPROVER_old(self->out_point_ids.size)] == v)
__CPROVER_ensures(ghost_k < 0 || (size_t)ghost_k >= __CPROVER_old(self->out_point_ids.size) || self->out_point_ids.data[ghost_k] == __CPROVER_old(self->out_point_ids.data[ghost_k >= 0 && (size_t)ghost_k < self->out_point_ids.cap ? ghost_k : 0]))
__CPROVER_assigns(self->out_point_ids.size, __CPROVER_object_whole(self->out_point_ids.data));
void pid_reserve(struct LinearSequencer *self, size_t n) __CPROVER_requires(n <= self->out_point_ids.cap) __CPROVER_ensures(1) __CPROVER_assigns();
void pid_clear(struct LinearSequencer *self) __CPROVER_ensures(self->out_point_ids.size == 0) __CPROVER_assigns(self->out_point_ids.size);
/* the sequence of the sequential codecs: refused for a negative count, otherwise exactly num_points ids, id k at position k */
bool LinearSequencer_GenerateSequenceInternal(struct LinearSequencer *self)
__CPROVER_requires(__CPROVER_is_fresh(self, sizeof(struct LinearSequencer)) && self->out_point_ids.cap >= 1 && self->out_point_ids.cap <= ((size_t)1 << 31) && \
                   (self->num_points_ < 0 || (size_t)self->num_points_ <= self->out_point_ids.cap) && __CPROVER_is_fresh(self->out_point_ids.data, self->out_point_ids.cap * 4))
__CPROVER_ensures(__CPROVER_return_value == (self->num_points_ >= 0))
__CPROVER_ensures(!__CPROVER_return_value || self->out_point_ids.size == (size_t)self->num_points_)
__CPROVER_ensures(!(__CPROVER_return_value && ghost_k >= 0 && ghost_k < self->num_points_) || self->out_point_ids.data[ghost_k] == (uint32_t)ghost_k)
__CPROVER_assigns(self->out_point_ids.size, __CPROVER_object_whole(self->out_point_ids.data));

/* in-place array zig-zag conversion: every element replaced by its signed value, nothing outside [0, in_values) touched */
void ConvertSymbolsToSignedInts_inplace(const uint32_t *in, int in_values, int32_t *out)
__CPROVER_requires(in_values >= 0 && (size_t)in_values <= SIAD_MAXVALS && __CPROVER_is_fresh(out, (size_t)(in_values ? in_values : 1) * 4) && __CPROVER_pointer_equals(in, (const uint32_t *)out))
__CPROVER_ensures(ghost_k < 0 || ghost_k >= in_values || out[ghost_k] == ZZ_U2S32((uint32_t)__CPROVER_old(out[ghost_k >= 0 && ghost_k < in_values ? ghost_k : 0])))
__CPROVER_assigns(__CPROVER_object_whole(out));

/* DecodeIntegerValues on ARBITRARY input: memory safe; every store goes into the portable attribute created for exactly
 * num_entries * num_components int32 values; the callees receive exactly that extent; the reader only moves forward. */
bool SIAD_DecodeIntegerValues(struct SIAD *self, const struct vec_pid *point_ids, struct DecoderBuffer *in_buffer)
__CPROVER_requires(__CPROVER_is_fresh(self, sizeof(struct SIAD)) && __CPROVER_is_fresh(point_ids, sizeof(struct vec_pid)) && DB_FRESH(in_buffer))
#ifdef ATTR_NC   /* the job fixes the component count: every size product in the function and in the stubs is then a multiplication by a constant */
__CPROVER_requires(ATTR_NC > 0 ? self->num_value_components == ATTR_NC : self->num_value_components <= 0)
#endif
__CPROVER_requires(point_ids->size <= SIAD_MAXVALS / 32)   /* the tiles go up to 32 components: entries * components stays inside the size model */
__CPROVER_ensures(DB_INV(in_buffer) && in_buffer->pos_ >= __CPROVER_old(in_buffer->pos_))
__CPROVER_ensures(!__CPROVER_return_value || self->num_value_components >= 1)
__CPROVER_ensures(!__CPROVER_return_value || (self->port_entries == (int)point_ids->size && self->port_components == self->num_value_components))
__CPROVER_assigns(in_buffer->pos_, self->port_data, self->port_bytes, self->port_entries, self->port_components);

#ifdef VERIF_CBMC
#include "core_helpers.h"
#include "core_slice.c"
static inline bool EncoderBuffer_Encode_u8_val(struct EncoderBuffer *b, uint8_t v) { return EncoderBuffer_Encode_u8(b, &v); } /* Encode<uint8_t>(const T&) called with a temporary */
#include "attrdec_slice.c"
int SIAD_GetNumValueComponents(struct SIAD *self) { return self->num_value_components; }
void SIAD_PreparePortableAttribute(struct SIAD *self, int num_entries, int num_components) {
  __CPROVER_assert(num_entries >= 0 && num_components >= 1, "attrdec.PreparePortableAttribute.arguments_valid");
  __CPROVER_assert((size_t)num_entries * (size_t)num_components <= SIAD_MAXVALS, "attrdec.PreparePortableAttribute.size_within_model");
  self->port_entries = num_entries; self->port_components = num_components; self->port_bytes = (size_t)num_entries * (size_t)num_components * 4;
  self->port_data = malloc(self->port_bytes ? self->port_bytes : 1); __CPROVER_assume(self->port_data != 0);
}
int32_t *SIAD_GetPortableAttributeData(struct SIAD *self) { return self->port_entries == 0 ? (int32_t *)0 : self->port_data; }
size_t SIAD_portable_data_size(struct SIAD *self) { return self->port_bytes; }
void h_enf_SIAD_DecodeIntegerValues(void) { GHOSTS(); struct SIAD *s; const struct vec_pid *p; struct DecoderBuffer *b; SIAD_DecodeIntegerValues(s, p, b); HARNESS_END(); }
void h_enf_LinearSequencer_GenerateSequenceInternal(void) { GHOSTS(); struct LinearSequencer *q; LinearSequencer_GenerateSequenceInternal(q); HARNESS_END(); }
void h_enf_ConvertSymbolsToSignedInts_inplace(void) { GHOSTS(); const uint32_t *in; int n; int32_t *out; ConvertSymbolsToSignedInts_inplace(in, n, out); HARNESS_END(); }
/* rawvalues.rt (C04/C05; BOUNDED stand-in: at most 3 values, every value): the raw attribute path stores `0`, the byte width and then every symbol
 * with that many low-order bytes; the width is 1 + msb(OR of all symbols)/8 (frozen layout: the smallest width that holds every symbol, 1..4), so a
 * reader that takes that many bytes per value (little endian, zero extended -- SequentialIntegerAttributeDecoder::DecodeIntegerValues) gets every
 * symbol back exactly. */
void h_rawvalues_rt(void) {
  GHOSTS();
  int n; __CPROVER_assume(n >= 1 && n <= 3);
  int32_t vals[3]; char store[32]; for (int i = 0; i < 32; ++i) store[i] = 0x55;
  struct EncoderBuffer eb; eb.buffer_.data = store; eb.buffer_.size = 0; eb.buffer_.cap = 32; eb.bit_encoder_ = 0; eb.bit_encoder_reserved_bytes_ = 0; eb.encode_bit_sequence_size_ = false;
  bool ok = SIAE_EncodeRawValues(vals, n, &eb);
  uint32_t all = 0; for (int i = 0; i < 3; ++i) if (i < n) all |= (uint32_t)vals[i];
  int want = all >= (1u << 24) ? 4 : all >= (1u << 16) ? 3 : all >= (1u << 8) ? 2 : 1;
  __CPROVER_assert(ok && (uint8_t)store[0] == 0, "rawvalues.rt.uncompressed_marker");
  __CPROVER_assert((uint8_t)store[1] == want, "rawvalues.rt.byte_width_is_smallest_that_holds_every_symbol");
  __CPROVER_assert(eb.buffer_.size == 2 + (size_t)want * (size_t)n, "rawvalues.rt.stream_length");
  int k; __CPROVER_assume(k >= 0 && k < n);
  uint32_t back = 0; for (int b = 0; b < 4; ++b) if (b < want) back |= (uint32_t)(uint8_t)store[2 + want * k + b] << (8 * b);
  __CPROVER_assert(back == (uint32_t)vals[k], "rawvalues.rt.symbol_read_back_exactly");
  HARNESS_END();
}
#endif
