/* Unit 'pred' (C16): wrap transform and canonicalized octahedral transform.  Bodies sliced into pred_slice.c. */
#include "core_contracts.h"
#include "vec_i32.h"
#include "pred_types.h"
#include "pred_helpers.h"
#include <math.h>

/* ------------------------------------------------------------------ wrap transform: specs */
#define WRAP_CLAMP(w, v) ((v) > (w)->max_value_ ? (w)->max_value_ : ((v) < (w)->min_value_ ? (w)->min_value_ : (v)))
/* what InitCorrectionBounds announces (taken from the property: corrections wrapped modulo max-min+1) */
#define WRAP_DIF64(w) ((int64_t)(w)->max_value_ - (int64_t)(w)->min_value_)
#define WRAP_BOUNDS_OK(w) (WRAP_DIF64(w) >= 0 && WRAP_DIF64(w) < (int64_t)INT32_MAX)
#define WRAP_INV(w) (WRAP_BOUNDS_OK(w) && (int64_t)(w)->max_dif_ == WRAP_DIF64(w) + 1 && (w)->min_correction_ == -((w)->max_dif_ / 2) && \
                     (w)->max_correction_ == ((w)->max_dif_ / 2) - (((w)->max_dif_ & 1) == 0 ? 1 : 0))
#define WRAP_VEC_OK(w) ((w)->num_components_ >= 0 && (w)->clamped_value_.size >= (size_t)(w)->num_components_ && (w)->clamped_value_.size <= ((size_t)1 << 28) && \
                        __CPROVER_is_fresh((w)->clamped_value_.data, (w)->clamped_value_.size * 4))

bool Wrap_InitCorrectionBounds(struct Wrap *self)
__CPROVER_requires(__CPROVER_is_fresh(self, sizeof(struct Wrap)))
__CPROVER_ensures(__CPROVER_return_value == WRAP_BOUNDS_OK(self))
__CPROVER_ensures(__CPROVER_return_value ==> WRAP_INV(self))
__CPROVER_ensures(!__CPROVER_return_value ==> (self->max_dif_ == __CPROVER_old(self->max_dif_) && self->max_correction_ == __CPROVER_old(self->max_correction_) && self->min_correction_ == __CPROVER_old(self->min_correction_)))
__CPROVER_assigns(self->max_dif_, self->max_correction_, self->min_correction_);

const int32_t *Wrap_ClampPredictedValue(const struct Wrap *self, const int32_t *predicted_val)
__CPROVER_requires(__CPROVER_is_fresh(self, sizeof(struct Wrap)) && WRAP_VEC_OK(self) && __CPROVER_is_fresh(predicted_val, (size_t)self->num_components_ * 4))
__CPROVER_requires(self->min_value_ <= self->max_value_)   /* representation invariant: established by the encoder (data min/max) and by DecodeTransformData (refuses min > max); without it the order of the two clamping tests would matter */
__CPROVER_ensures(__CPROVER_return_value == self->clamped_value_.data)
__CPROVER_ensures(ghost_k < 0 || ghost_k >= self->num_components_ || self->clamped_value_.data[ghost_k] == WRAP_CLAMP(self, predicted_val[ghost_k]))
__CPROVER_assigns(__CPROVER_object_whole(self->clamped_value_.data));

bool WrapDec_DecodeTransformData(struct Wrap *self, struct DecoderBuffer *buffer)
__CPROVER_requires(__CPROVER_is_fresh(self, sizeof(struct Wrap)) && DB_FRESH(buffer))
__CPROVER_ensures(DB_INV(buffer) && buffer->pos_ >= __CPROVER_old(buffer->pos_) && buffer->pos_ <= __CPROVER_old(buffer->pos_) + 8)
__CPROVER_ensures(__CPROVER_return_value ==> (WRAP_INV(self) && buffer->pos_ == __CPROVER_old(buffer->pos_) + 8 && \
                  self->min_value_ == VAL_i32(buffer->data_ + __CPROVER_old(buffer->pos_)) && self->max_value_ == VAL_i32(buffer->data_ + __CPROVER_old(buffer->pos_) + 4)))
__CPROVER_assigns(buffer->pos_, self->min_value_, self->max_value_, self->max_dif_, self->max_correction_, self->min_correction_);

/* ------------------------------------------------------------------ octahedron tool box: specs */
#define OTB_INV(o) ((o)->quantization_bits_ >= 2 && (o)->quantization_bits_ <= 30 && (o)->max_quantized_value_ == (int32_t)((1u << (o)->quantization_bits_) - 1) && \
                    (o)->max_value_ == (o)->max_quantized_value_ - 1 && (o)->center_value_ == (o)->max_value_ / 2)
bool OTB_SetQuantizationBits(struct OTB *self, int32_t q)
__CPROVER_requires(__CPROVER_is_fresh(self, sizeof(struct OTB)))
__CPROVER_ensures(__CPROVER_return_value == (q >= 2 && q <= 30))
__CPROVER_ensures(__CPROVER_return_value ==> (OTB_INV(self) && self->quantization_bits_ == q))
__CPROVER_ensures(!__CPROVER_return_value ==> (self->quantization_bits_ == __CPROVER_old(self->quantization_bits_) && self->max_quantized_value_ == __CPROVER_old(self->max_quantized_value_)))
__CPROVER_assigns(self->quantization_bits_, self->max_quantized_value_, self->max_value_, self->dequantization_scale_, self->center_value_);

bool OctT_set_max_quantized_value(struct OTB *self, int32_t max_quantized_value)
__CPROVER_requires(__CPROVER_is_fresh(self, sizeof(struct OTB)))
__CPROVER_ensures(__CPROVER_return_value ==> (OTB_INV(self)))
__CPROVER_assigns(self->quantization_bits_, self->max_quantized_value_, self->max_value_, self->dequantization_scale_, self->center_value_);

bool CanonDec_DecodeTransformData(struct OTB *self, struct DecoderBuffer *buffer)
__CPROVER_requires(__CPROVER_is_fresh(self, sizeof(struct OTB)) && DB_FRESH(buffer))
__CPROVER_ensures(DB_INV(buffer) && buffer->pos_ >= __CPROVER_old(buffer->pos_) && buffer->pos_ <= __CPROVER_old(buffer->pos_) + 8)
__CPROVER_ensures(__CPROVER_return_value ==> OTB_INV(self))
__CPROVER_assigns(buffer->pos_, self->quantization_bits_, self->max_quantized_value_, self->max_value_, self->dequantization_scale_, self->center_value_);

int32_t AddAsUnsigned_i32(int32_t a, int32_t b)
__CPROVER_ensures(__CPROVER_return_value == (int32_t)((uint32_t)a + (uint32_t)b))
__CPROVER_assigns();

#ifdef VERIF_CBMC
#include "pred_slice.c"
#endif

/* ------------------------------------------------------------------ harnesses */
#ifdef VERIF_CBMC
void h_enf_Wrap_InitCorrectionBounds(void) { GHOSTS(); struct Wrap *w; Wrap_InitCorrectionBounds(w); HARNESS_END(); }
void h_enf_Wrap_ClampPredictedValue(void) { GHOSTS(); struct Wrap *w; const int32_t *p; Wrap_ClampPredictedValue(w, p); HARNESS_END(); }
void h_enf_WrapDec_DecodeTransformData(void) { GHOSTS(); struct Wrap *w; struct DecoderBuffer *b; WrapDec_DecodeTransformData(w, b); HARNESS_END(); }
void h_enf_OTB_SetQuantizationBits(void) { GHOSTS(); struct OTB *o; int32_t q; OTB_SetQuantizationBits(o, q); HARNESS_END(); }
void h_enf_OctT_set_max_quantized_value(void) { GHOSTS(); struct OTB *o; int32_t q; OctT_set_max_quantized_value(o, q); HARNESS_END(); }
void h_enf_CanonDec_DecodeTransformData(void) { GHOSTS(); struct OTB *o; struct DecoderBuffer *b; CanonDec_DecodeTransformData(o, b); HARNESS_END(); }
void h_enf_AddAsUnsigned_i32(void) { GHOSTS(); int32_t a, b; AddAsUnsigned_i32(a, b); HARNESS_END(); }
#endif

#ifndef WRAP_NC
#define WRAP_NC 1
#endif
/* wrap.inv (C16): for every [min,max] the transform accepts, every original value in range and EVERY 32-bit prediction:
 * the correction lies in the announced interval and the decoder returns the original.  Components 1..WRAP_NC. */
void h_wrap_inv(void) {
  NONDET(int32_t, minv); NONDET(int32_t, maxv); NONDET(int32_t, nc);
  NONDET_ARR(int32_t, orig, WRAP_NC); NONDET_ARR(int32_t, pred, WRAP_NC);
  ASSUME(nc >= 1 && nc <= WRAP_NC);
  int32_t clamp_store[WRAP_NC]; int32_t corr[WRAP_NC]; int32_t out[WRAP_NC];
  for (int i = 0; i < WRAP_NC; ++i) { clamp_store[i] = 0; corr[i] = 0; out[i] = 0; }
  struct Wrap w; w.num_components_ = nc; w.min_value_ = minv; w.max_value_ = maxv; w.max_dif_ = 0; w.max_correction_ = 0; w.min_correction_ = 0;
  w.clamped_value_.data = clamp_store; w.clamped_value_.size = (size_t)nc;
  bool ok = Wrap_InitCorrectionBounds(&w);
  ASSUME(ok);
  ASSERT((int64_t)maxv - (int64_t)minv < (int64_t)INT32_MAX && minv <= maxv, "wrap.inv.accepted_range_is_the_declared_one");
  for (int i = 0; i < WRAP_NC; ++i) ASSUME(i >= nc || (orig[i] >= minv && orig[i] <= maxv));
  WrapEnc_ComputeCorrection(&w, orig, pred, corr);
  for (int i = 0; i < WRAP_NC; ++i) ASSERT(i >= nc || (corr[i] >= Wrap_min_correction(&w) && corr[i] <= Wrap_max_correction(&w)), "wrap.inv.correction_in_announced_interval");
  WrapDec_ComputeOriginalValue(&w, pred, corr, out);
  for (int i = 0; i < WRAP_NC; ++i) ASSERT(i >= nc || out[i] == orig[i], "wrap.inv.decoder_returns_original");
  HARNESS_END();
}
/* wrap.safe (C02): arbitrary prediction AND arbitrary correction (malformed stream): no undefined behaviour. */
void h_wrap_safe(void) {
  NONDET(int32_t, minv); NONDET(int32_t, maxv); NONDET(int32_t, nc);
  NONDET_ARR(int32_t, corr, WRAP_NC); NONDET_ARR(int32_t, pred, WRAP_NC);
  ASSUME(nc >= 1 && nc <= WRAP_NC);
  int32_t clamp_store[WRAP_NC]; int32_t out[WRAP_NC];
  for (int i = 0; i < WRAP_NC; ++i) { clamp_store[i] = 0; out[i] = 0; }
  struct Wrap w; w.num_components_ = nc; w.min_value_ = minv; w.max_value_ = maxv; w.max_dif_ = 0; w.max_correction_ = 0; w.min_correction_ = 0;
  w.clamped_value_.data = clamp_store; w.clamped_value_.size = (size_t)nc;
  ASSUME(Wrap_InitCorrectionBounds(&w));
  WrapDec_ComputeOriginalValue(&w, pred, corr, out);
  ASSERT(1, "wrap.safe.returns");
  HARNESS_END();
}

/* oct.inv (C16): at quantization Q, for every pair of canonical octahedral coordinates: corrections are non-negative and at most
 * max_value (the interval announced through AreCorrectionsPositive), and the decoder returns the original. */
#ifndef OCT_Q
#define OCT_Q 8
#endif
static bool oct_canonical(const struct OTB *o, int32_t s, int32_t t) {
  if (s < 0 || t < 0 || s > o->max_value_ || t > o->max_value_) return false;
  int32_t cs, ct; OTB_CanonicalizeOctahedralCoords(o, s, t, &cs, &ct);
  return cs == s && ct == t;
}
void h_oct_inv(void) {
  NONDET(int32_t, q); NONDET_ARR(int32_t, orig, 2); NONDET_ARR(int32_t, pred, 2);
  ASSUME(q == OCT_Q);
  struct OTB o; o.quantization_bits_ = -1; o.max_quantized_value_ = 0; o.max_value_ = 0; o.dequantization_scale_ = 1.f; o.center_value_ = -1;
  bool ok = OTB_SetQuantizationBits(&o, q);
  ASSERT(ok, "oct.inv.q_accepted");
  ASSUME(oct_canonical(&o, orig[0], orig[1]) && oct_canonical(&o, pred[0], pred[1]));
  int32_t corr[2] = {0, 0}, out[2] = {0, 0};
  CanonEnc_ComputeCorrection(&o, orig, pred, corr);
  ASSERT(corr[0] >= 0 && corr[1] >= 0 && corr[0] <= o.max_value_ && corr[1] <= o.max_value_, "oct.inv.correction_in_announced_interval");
  CanonDec_ComputeOriginalValue(&o, pred, corr, out);
  ASSERT(out[0] == orig[0] && out[1] == orig[1], "oct.inv.decoder_returns_original");
  HARNESS_END();
}
/* oct.safe (C02): prediction inside the q-bit square (what the predictors deliver from already decoded coordinates), ARBITRARY
 * 32-bit corrections (malformed stream): no undefined behaviour in the decoder-side transform. */
void h_oct_safe(void) {
  NONDET(int32_t, q); NONDET_ARR(int32_t, corr, 2); NONDET_ARR(int32_t, pred, 2);
  ASSUME(q >= 2 && q <= 30);
  struct OTB o; o.quantization_bits_ = -1; o.max_quantized_value_ = 0; o.max_value_ = 0; o.dequantization_scale_ = 1.f; o.center_value_ = -1;
  ASSUME(OTB_SetQuantizationBits(&o, q));
  ASSUME(pred[0] >= 0 && pred[1] >= 0 && pred[0] <= 2 * o.center_value_ && pred[1] <= 2 * o.center_value_);
  int32_t out[2] = {0, 0};
  CanonDec_ComputeOriginalValue(&o, pred, corr, out);
  ASSERT(1, "oct.safe.returns");
  HARNESS_END();
}

/* oct.intvec (C07): for every q and every integer vector on the octahedron |x|+|y|+|z| == center: the octahedral coordinates are inside the
 * q-bit square [0,max_value]^2 and are canonical (fixed point of CanonicalizeOctahedralCoords). */
void h_oct_intvec(void) {
  NONDET(int32_t, q); NONDET_ARR(int32_t, v, 3);
  ASSUME(q >= 2 && q <= 30);
  struct OTB o; o.quantization_bits_ = -1; o.max_quantized_value_ = 0; o.max_value_ = 0; o.dequantization_scale_ = 1.f; o.center_value_ = -1;
  ASSUME(OTB_SetQuantizationBits(&o, q));
  ASSUME(v[0] >= -o.center_value_ && v[0] <= o.center_value_ && v[1] >= -o.center_value_ && v[1] <= o.center_value_ && v[2] >= -o.center_value_ && v[2] <= o.center_value_);
  ASSUME(draco_abs_i32(v[0]) + draco_abs_i32(v[1]) + draco_abs_i32(v[2]) == o.center_value_);
  int32_t s = -1, t = -1; OTB_IntegerVectorToQuantizedOctahedralCoords(&o, v, &s, &t);
  ASSERT(s >= 0 && t >= 0 && s <= o.max_value_ && t <= o.max_value_, "oct.intvec.inside_q_bit_square");
  int32_t cs, ct; OTB_CanonicalizeOctahedralCoords(&o, s, t, &cs, &ct);
  ASSERT(cs == s && ct == t, "oct.intvec.canonical");
  HARNESS_END();
}
/* oct.floatvec.q (C07): for EVERY finite float32 3-vector (zero, denormal, huge included): no undefined float->int conversion, coordinates
 * inside the q-bit square and canonical.  (Unit length and the angle bound are not expressible as cheap obligations: not claimed.) */
void h_oct_floatvec(void) {
  NONDET(int32_t, q); NONDET_ARR(float, f, 3);
  ASSUME(q == OCT_Q);
  ASSUME(!isnan(f[0]) && !isnan(f[1]) && !isnan(f[2]) && !isinf(f[0]) && !isinf(f[1]) && !isinf(f[2]));
  struct OTB o; o.quantization_bits_ = -1; o.max_quantized_value_ = 0; o.max_value_ = 0; o.dequantization_scale_ = 1.f; o.center_value_ = -1;
  ASSUME(OTB_SetQuantizationBits(&o, q));
  int32_t s = -1, t = -1; OTB_FloatVectorToQuantizedOctahedralCoords_f32(&o, f, &s, &t);
  ASSERT(s >= 0 && t >= 0 && s <= o.max_value_ && t <= o.max_value_, "oct.floatvec.inside_q_bit_square");
  int32_t cs, ct; OTB_CanonicalizeOctahedralCoords(&o, s, t, &cs, &ct);
  ASSERT(cs == s && ct == t, "oct.floatvec.canonical");
  HARNESS_END();
}
/* oct.floatvec.dominant.q (C07, direction): the component of largest magnitude keeps its sign and at least a quarter of the octahedron's
 * L1 radius (exactly scaled it has at least a third), for EVERY finite float32 vector whose largest component is at least 1e-3 in magnitude --
 * huge values included: an overflowing or truncating normalisation collapses the vector onto an axis and fails here.  The integer vector is observed
 * at the call of IntegerVectorToQuantizedOctahedralCoords (replaced by a contract that records it). */
int32_t ghost_iv[3];
void OTB_IntegerVectorToQuantizedOctahedralCoords(const struct OTB *self, const int32_t *int_vec, int32_t *out_s, int32_t *out_t)
__CPROVER_requires(__CPROVER_r_ok(int_vec, 12))
__CPROVER_ensures(ghost_iv[0] == int_vec[0] && ghost_iv[1] == int_vec[1] && ghost_iv[2] == int_vec[2])
__CPROVER_assigns(*out_s, *out_t, ghost_iv[0], ghost_iv[1], ghost_iv[2]);
void h_oct_floatvec_dominant(void) {
  NONDET(int32_t, q); NONDET_ARR(float, f, 3);
  ASSUME(q == OCT_Q);
  ASSUME(!isnan(f[0]) && !isnan(f[1]) && !isnan(f[2]) && !isinf(f[0]) && !isinf(f[1]) && !isinf(f[2]));
  ASSUME(fabsf(f[0]) >= fabsf(f[1]) && fabsf(f[0]) >= fabsf(f[2]) && fabsf(f[0]) >= 1e-3f);
  struct OTB o; o.quantization_bits_ = -1; o.max_quantized_value_ = 0; o.max_value_ = 0; o.dequantization_scale_ = 1.f; o.center_value_ = -1;
  ASSUME(OTB_SetQuantizationBits(&o, q));
  int32_t s = -1, t = -1; OTB_FloatVectorToQuantizedOctahedralCoords_f32(&o, f, &s, &t);
  ASSERT(f[0] > 0 ? ghost_iv[0] >= o.center_value_ / 4 : ghost_iv[0] <= -(o.center_value_ / 4), "oct.floatvec.dominant_component_keeps_sign_and_weight");
  ASSERT((int64_t)draco_abs_i32(ghost_iv[0]) + draco_abs_i32(ghost_iv[1]) + draco_abs_i32(ghost_iv[2]) == o.center_value_, "oct.floatvec.integer_vector_on_octahedron");
  HARNESS_END();
}
/* oct.canon_intvec (C07/C02): CanonicalizeIntegerVector on any int32 vector whose components are bounded by 2^29 (what the predictors deliver
 * from quantized positions): no overflow, and the result lies on the octahedron |x|+|y|+|z| == center. */
void h_oct_canon_intvec(void) {
  NONDET(int32_t, q); NONDET_ARR(int32_t, v, 3);
  ASSUME(q >= 2 && q <= 30);
#ifdef OCT_Q
  ASSUME(q == OCT_Q);
#endif
#ifndef INTVEC_BOUND
#define INTVEC_BOUND (1 << 29)
#endif
  struct OTB o; o.quantization_bits_ = -1; o.max_quantized_value_ = 0; o.max_value_ = 0; o.dequantization_scale_ = 1.f; o.center_value_ = -1;
  ASSUME(OTB_SetQuantizationBits(&o, q));
  ASSUME(v[0] > -INTVEC_BOUND && v[0] < INTVEC_BOUND && v[1] > -INTVEC_BOUND && v[1] < INTVEC_BOUND && v[2] > -INTVEC_BOUND && v[2] < INTVEC_BOUND);
  OTB_CanonicalizeIntegerVector_i32(&o, v);
  ASSERT((int64_t)draco_abs_i32(v[0]) + draco_abs_i32(v[1]) + draco_abs_i32(v[2]) == o.center_value_, "oct.canon_intvec.on_octahedron");
  HARNESS_END();
}
