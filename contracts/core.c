/* Unit 'core': contracts are declared in core_contracts.h; bodies are sliced from /repo on every run into core_slice.c; lemmas/harnesses below. */
#include "core_contracts.h"
#include "core_helpers.h"
#ifdef VERIF_CBMC
#include "core_slice.c" /* generated slice */
#endif

/* ------------------------------------------------------------------ harnesses */
#define H_ENF_ZZ(W, ST, UT) \
  void h_enf_S2U_i##W(void) { NONDET(ST, v); UT r = S2U_i##W(v); ASSERT(r == ZZ_S2U(UT, v), "zigzag.spec.S2U_i" #W); HARNESS_END(); } \
  void h_enf_U2S_u##W(void) { NONDET(UT, u); ST r = U2S_u##W(u); ASSERT(r == ZZ_U2S(ST, UT, u), "zigzag.spec.U2S_u" #W); HARNESS_END(); } \
  void h_zz_inv1_##W(void) { NONDET(ST, v); UT u = S2U_i##W(v); ST w = U2S_u##W(u); ASSERT(w == v, "zigzag.inv1." #W); HARNESS_END(); } \
  void h_zz_inv2_##W(void) { NONDET(UT, u); ST v = U2S_u##W(u); UT w = S2U_i##W(v); ASSERT(w == u, "zigzag.inv2." #W); HARNESS_END(); }
H_ENF_ZZ(8, int8_t, uint8_t)
H_ENF_ZZ(16, int16_t, uint16_t)
H_ENF_ZZ(32, int32_t, uint32_t)
H_ENF_ZZ(64, int64_t, uint64_t)

#ifdef VERIF_CBMC
void h_enf_ConvertSignedIntsToSymbols(void) { GHOSTS(); const int32_t *in; int n; uint32_t *out; ConvertSignedIntsToSymbols(in, n, out); HARNESS_END(); }
void h_enf_ConvertSymbolsToSignedInts(void) { GHOSTS(); const uint32_t *in; int n; int32_t *out; ConvertSymbolsToSignedInts(in, n, out); HARNESS_END(); }
#define H_ENF_DB(SFX, T) \
  void h_enf_DecoderBuffer_Peek_##SFX(void) { GHOSTS(); struct DecoderBuffer *b; T *o; DecoderBuffer_Peek_##SFX(b, o); HARNESS_END(); } \
  void h_enf_DecoderBuffer_Decode_##SFX(void) { GHOSTS(); struct DecoderBuffer *b; T *o; DecoderBuffer_Decode_##SFX(b, o); HARNESS_END(); }
H_ENF_DB(u8, uint8_t)
H_ENF_DB(u16, uint16_t)
H_ENF_DB(u32, uint32_t)
H_ENF_DB(u64, uint64_t)
H_ENF_DB(i8, int8_t)
H_ENF_DB(i16, int16_t)
H_ENF_DB(i32, int32_t)
H_ENF_DB(i64, int64_t)
#endif

/* ------------------------------------------------------------------ varint harnesses */
#ifdef VERIF_CBMC
#define H_ENF_DV(SFX, T) void h_enf_DecodeVarint_##SFX(void) { GHOSTS(); T *o; struct DecoderBuffer *b; DecodeVarint_##SFX(o, b); HARNESS_END(); }
#define H_ENF_DVU(W, UT) void h_enf_DecodeVarintUnsigned_u##W(void) { GHOSTS(); int d; UT *o; struct DecoderBuffer *b; DecodeVarintUnsigned_u##W(d, o, b); HARNESS_END(); }
H_ENF_DVU(8, uint8_t) H_ENF_DVU(16, uint16_t) H_ENF_DVU(32, uint32_t) H_ENF_DVU(64, uint64_t)
H_ENF_DV(u8, uint8_t) H_ENF_DV(u16, uint16_t) H_ENF_DV(u32, uint32_t) H_ENF_DV(u64, uint64_t)
H_ENF_DV(i8, int8_t) H_ENF_DV(i16, int16_t) H_ENF_DV(i32, int32_t) H_ENF_DV(i64, int64_t)
#endif

/* Round trip: encode x with the real encoder into a 16-byte vector model, append `trail` arbitrary
 * bytes, decode with the real decoder.  All bodies inlined; recursion unwound to its width bound. */
#define VR_CAP 16
#define H_VARINT_RT(SFX, T, W) \
  void h_varint_rt_##SFX(void) { \
    NONDET(T, x); NONDET_ARR(uint8_t, trail, VR_CAP); \
    char store[VR_CAP]; for (int i = 0; i < VR_CAP; ++i) store[i] = (char)trail[i]; \
    struct EncoderBuffer eb; eb.buffer_.data = store; eb.buffer_.size = 0; eb.buffer_.cap = VR_CAP; \
    eb.bit_encoder_ = NULL; eb.bit_encoder_reserved_bytes_ = 0; eb.encode_bit_sequence_size_ = false; \
    bool eok = EncodeVarint_##SFX(x, &eb); \
    ASSERT(eok, "varint.rt." #SFX ".encode_ok"); \
    size_t produced = eb.buffer_.size; \
    ASSERT(produced >= 1 && produced <= VARINT_MAXLEN_##W, "varint.rt." #SFX ".length"); \
    struct DecoderBuffer db; db.data_ = store; db.data_size_ = VR_CAP; db.pos_ = 0; db.bit_mode_ = false; db.bitstream_version_ = 0; \
    db.bit_decoder_.bit_buffer_ = NULL; db.bit_decoder_.bit_buffer_end_ = NULL; db.bit_decoder_.bit_offset_ = 0; \
    T y = 0; bool dok = DecodeVarint_##SFX(&y, &db); \
    ASSERT(dok, "varint.rt." #SFX ".decode_ok"); \
    ASSERT(y == x, "varint.rt." #SFX ".value"); \
    ASSERT((size_t)db.pos_ == produced, "varint.rt." #SFX ".consumed_eq_produced"); \
    /* exact-length buffer: decoding still succeeds when the stream ends right after the varint */ \
    struct DecoderBuffer db2 = db; db2.pos_ = 0; db2.data_size_ = (int64_t)produced; T z = 0; \
    ASSERT(DecodeVarint_##SFX(&z, &db2) && z == x, "varint.rt." #SFX ".exact_length"); \
    /* truncated buffer: fails, never reads past the end (bounds obligations) */ \
    struct DecoderBuffer db3 = db; db3.pos_ = 0; db3.data_size_ = (int64_t)produced - 1; T w = 0; \
    ASSERT(!DecodeVarint_##SFX(&w, &db3), "varint.rt." #SFX ".truncated_fails"); \
    HARNESS_END(); }
H_VARINT_RT(u8, uint8_t, 8) H_VARINT_RT(u16, uint16_t, 16) H_VARINT_RT(u32, uint32_t, 32) H_VARINT_RT(u64, uint64_t, 64)
H_VARINT_RT(i8, int8_t, 8) H_VARINT_RT(i16, int16_t, 16) H_VARINT_RT(i32, int32_t, 32) H_VARINT_RT(i64, int64_t, 64)

/* ------------------------------------------------------------------ bit-level harnesses */
#ifdef VERIF_CBMC
void h_enf_BitDecoder_GetBit(void) { GHOSTS(); struct BitDecoder *d; BitDecoder_GetBit(d); HARNESS_END(); }
void h_enf_BitDecoder_PeekBit(void) { GHOSTS(); struct BitDecoder *d; int o; BitDecoder_PeekBit(d, o); HARNESS_END(); }
void h_enf_BitDecoder_GetBits(void) { GHOSTS(); struct BitDecoder *d; uint32_t n; uint32_t *x; BitDecoder_GetBits(d, n, x); HARNESS_END(); }
void h_enf_BitDecoder_AvailBits(void) { GHOSTS(); struct BitDecoder *d; BitDecoder_AvailBits(d); HARNESS_END(); }
void h_enf_BitDecoder_BitsDecoded(void) { GHOSTS(); struct BitDecoder *d; BitDecoder_BitsDecoded(d); HARNESS_END(); }
void h_enf_BitDecoder_reset(void) { GHOSTS(); struct BitDecoder *d; const void *b; size_t s; BitDecoder_reset(d, b, s); HARNESS_END(); }
void h_enf_BitDecoder_EnsureBits(void) { GHOSTS(); struct BitDecoder *d; int k; BitDecoder_EnsureBits(d, k); HARNESS_END(); }
#endif

#ifdef VERIF_CBMC
/* negative control: the ghost variables really are unconstrained (this assertion MUST fail) */
void h_ghost_control(void) { GHOSTS(); __CPROVER_assert(ghost_k == 0 && ghost_len == 0 && ghost_bit == 0, "control.ghosts_are_zero"); }
#endif

#ifdef VERIF_CBMC
void h_enf_DecoderBuffer_DecodeBytes(void) { GHOSTS(); struct DecoderBuffer *b; void *o; size_t n; DecoderBuffer_DecodeBytes(b, o, n); HARNESS_END(); }
void h_enf_DecoderBuffer_PeekBytes(void) { GHOSTS(); struct DecoderBuffer *b; void *o; size_t n; DecoderBuffer_PeekBytes(b, o, n); HARNESS_END(); }
void h_enf_DecoderBuffer_StartBitDecoding(void) { GHOSTS(); struct DecoderBuffer *b; bool ds; uint64_t *o; DecoderBuffer_StartBitDecoding(b, ds, o); HARNESS_END(); }
void h_enf_DecoderBuffer_EndBitDecoding(void) { GHOSTS(); struct DecoderBuffer *b; DecoderBuffer_EndBitDecoding(b); HARNESS_END(); }
void h_enf_DecoderBuffer_DecodeLeastSignificantBits32(void) { GHOSTS(); struct DecoderBuffer *b; uint32_t n; uint32_t *o; DecoderBuffer_DecodeLeastSignificantBits32(b, n, o); HARNESS_END(); }
#endif

/* bits.rt: PutBits(value, nbits) at bit offset o, then GetBits(nbits) at the same offset returns value & mask(nbits);
 * every bit of the 12-byte window outside [o, o+nbits) is unchanged (frame).  Bodies inlined, loops <= 32. */
void h_bits_rt(void) {
  NONDET(uint32_t, value); NONDET(int32_t, nbits); NONDET(uint32_t, o); NONDET_ARR(uint8_t, init, 12); NONDET(uint32_t, g);
  ASSUME(nbits >= 0 && nbits <= 32 && o < 64 && g < 96);
  char store[12]; for (int i = 0; i < 12; ++i) store[i] = (char)init[i];
  struct BitEncoder e; e.bit_buffer_ = store; e.bit_offset_ = o;
  BitEncoder_PutBits(&e, value, nbits);
  ASSERT(e.bit_offset_ == (size_t)o + (size_t)nbits, "bits.rt.encoder_offset");
  int before = (init[g >> 3] >> (g & 7)) & 1, after = (((uint8_t)store[g >> 3]) >> (g & 7)) & 1;
  ASSERT((g >= o && g < o + (uint32_t)nbits) || before == after, "bits.rt.frame");
  struct BitDecoder d; d.bit_buffer_ = (const uint8_t *)store; d.bit_buffer_end_ = (const uint8_t *)store + 12; d.bit_offset_ = o;
  uint32_t out = 0xdeadbeef; bool ok = BitDecoder_GetBits(&d, (uint32_t)nbits, &out);
  uint32_t mask = nbits == 32 ? 0xffffffffu : ((1u << nbits) - 1u);
  ASSERT(ok && out == (value & mask), "bits.rt.value");
  ASSERT(d.bit_offset_ == e.bit_offset_, "bits.rt.decoder_offset");
  HARNESS_END();
}

#ifdef VERIF_CBMC
#define H_ENF_EB(SFX, T) void h_enf_EncoderBuffer_Encode_##SFX(void) { GHOSTS(); struct EncoderBuffer *e; const T *d; EncoderBuffer_Encode_##SFX(e, d); HARNESS_END(); }
H_ENF_EB(u8, uint8_t) H_ENF_EB(u16, uint16_t) H_ENF_EB(u32, uint32_t) H_ENF_EB(u64, uint64_t) H_ENF_EB(i8, int8_t) H_ENF_EB(i16, int16_t) H_ENF_EB(i32, int32_t) H_ENF_EB(i64, int64_t)
#endif

/* bitseq.rt (BOUNDED stand-in: prefix <= 4 bytes, <= 64 payload bits, two writes): a bit sequence written between
 * StartBitEncoding/EndBitEncoding (with or without stored size) is found by StartBitDecoding, reads back exactly, the
 * stored size is the payload byte count, and EndBitDecoding leaves the reader at the end of what the writer produced. */
#ifndef BITSEQ_PREFIX
#define BITSEQ_PREFIX 3
#endif
#ifndef BITSEQ_N2MAX
#define BITSEQ_N2MAX 32
#endif
void h_bitseq_rt(void) {
  NONDET(uint32_t, prefix); NONDET(int64_t, required_bits); NONDET(bool, with_size); NONDET(uint32_t, v1); NONDET(uint32_t, v2); NONDET(int32_t, n1); NONDET(int32_t, n2);
  NONDET_ARR(uint8_t, junk, 40); NONDET(uint16_t, version);
  ASSUME(prefix == BITSEQ_PREFIX && required_bits >= 1 && required_bits <= 64 && n1 >= 0 && n1 <= 32 && n2 >= 0 && n2 <= BITSEQ_N2MAX && n1 + n2 <= required_bits);
  ASSUME(version == DRACO_BITSTREAM_VERSION(2, 2) || version == DRACO_BITSTREAM_VERSION(2, 3));
  char store[40]; for (int i = 0; i < 40; ++i) store[i] = (char)junk[i];
  struct EncoderBuffer eb; eb.buffer_.data = store; eb.buffer_.size = prefix; eb.buffer_.cap = 40; eb.bit_encoder_ = NULL; eb.bit_encoder_reserved_bytes_ = 0; eb.encode_bit_sequence_size_ = false;
  ASSERT(EncoderBuffer_StartBitEncoding(&eb, required_bits, with_size), "bitseq.rt.start_ok");
  uint8_t probe = 7; ASSERT(!EncoderBuffer_Encode_u8(&eb, &probe), "bitseq.rt.byte_write_refused_in_bit_mode");
  ASSERT(EncoderBuffer_EncodeLeastSignificantBits32(&eb, n1, v1) && EncoderBuffer_EncodeLeastSignificantBits32(&eb, n2, v2), "bitseq.rt.put_ok");
  EncoderBuffer_EndBitEncoding(&eb);
  size_t payload = ((size_t)(n1 + n2) + 7) / 8;
  ASSERT(eb.buffer_.size == prefix + (with_size ? 1 : 0) + payload, "bitseq.rt.produced_length");
  ASSERT(!EncoderBuffer_bit_encoder_active(&eb), "bitseq.rt.back_in_byte_mode");
  for (int i = 0; i < 4; ++i) ASSERT((uint32_t)i >= prefix || (uint8_t)store[i] == junk[i], "bitseq.rt.prefix_untouched");
  struct DecoderBuffer db; db.data_ = store; db.data_size_ = (int64_t)eb.buffer_.size; db.pos_ = prefix; db.bit_mode_ = false; db.bitstream_version_ = version;
  db.bit_decoder_.bit_buffer_ = NULL; db.bit_decoder_.bit_buffer_end_ = NULL; db.bit_decoder_.bit_offset_ = 0;
  uint64_t sz = 12345; ASSERT(DecoderBuffer_StartBitDecoding(&db, with_size, &sz), "bitseq.rt.start_decoding_ok");
  ASSERT(!with_size || sz == payload, "bitseq.rt.stored_size");
  uint32_t o1 = 1, o2 = 2;
  ASSERT(DecoderBuffer_DecodeLeastSignificantBits32(&db, (uint32_t)n1, &o1) && DecoderBuffer_DecodeLeastSignificantBits32(&db, (uint32_t)n2, &o2), "bitseq.rt.get_ok");
  ASSERT(o1 == (n1 == 32 ? v1 : (v1 & ((1u << n1) - 1))) && o2 == (n2 == 32 ? v2 : (v2 & ((1u << n2) - 1))), "bitseq.rt.values");
  DecoderBuffer_EndBitDecoding(&db);
  ASSERT(db.pos_ == (int64_t)eb.buffer_.size, "bitseq.rt.consumed_eq_produced");
  HARNESS_END();
}

#ifdef VERIF_CBMC
void h_enf_MostSignificantBit(void) { GHOSTS(); uint32_t n; MostSignificantBit(n); HARNESS_END(); }
void h_enf_CountOneBits32(void) { GHOSTS(); uint32_t n; CountOneBits32(n); HARNESS_END(); }
void h_enf_ReverseBits32(void) { GHOSTS(); uint32_t n; ReverseBits32(n); HARNESS_END(); }
void h_enf_CopyBits32(void) { GHOSTS(); uint32_t *d; int a, c, k; uint32_t s; CopyBits32(d, a, s, c, k); HARNESS_END(); }
#endif

#ifdef VERIF_CBMC
void h_enf_DecoderBuffer_remaining_size(void) { GHOSTS(); struct DecoderBuffer b; DecoderBuffer_remaining_size(&b); HARNESS_END(); }
void h_enf_DecoderBuffer_data_head(void) { GHOSTS(); struct DecoderBuffer b; b.data_ = 0; DecoderBuffer_data_head(&b); HARNESS_END(); }
void h_enf_DecoderBuffer_bit_decoder_active(void) { GHOSTS(); struct DecoderBuffer b; DecoderBuffer_bit_decoder_active(&b); HARNESS_END(); }
void h_enf_DecoderBuffer_Advance(void) { GHOSTS(); struct DecoderBuffer b; int64_t n; DecoderBuffer_Advance(&b, n); HARNESS_END(); }
#endif

#ifdef VERIF_CBMC
void h_enf_EncoderBuffer_EncodeBytes(void) { GHOSTS(); struct EncoderBuffer *e; const void *d; size_t n; EncoderBuffer_EncodeBytes(e, d, n); HARNESS_END(); }
#endif

/* ------------------------------------------------------------------ format pins (C05): absolute byte layouts, independent of the decoder */
void h_fmt_varint_layout(void) {
  NONDET(uint32_t, x);
  char store[VR_CAP]; for (int i = 0; i < VR_CAP; ++i) store[i] = 0x5a;
  struct EncoderBuffer eb; eb.buffer_.data = store; eb.buffer_.size = 0; eb.buffer_.cap = VR_CAP; eb.bit_encoder_ = NULL; eb.bit_encoder_reserved_bytes_ = 0; eb.encode_bit_sequence_size_ = false;
  bool ok = EncodeVarint_u32(x, &eb);
  size_t len = x < (1u << 7) ? 1 : x < (1u << 14) ? 2 : x < (1u << 21) ? 3 : x < (1u << 28) ? 4 : 5;
  ASSERT(ok && eb.buffer_.size == len, "fmt.varint.minimal_length");
  for (int i = 0; i < 5; ++i) ASSERT((size_t)i >= len || (uint8_t)store[i] == (uint8_t)(((x >> (7 * i)) & 0x7f) | ((size_t)i + 1 < len ? 0x80 : 0)), "fmt.varint.seven_bits_lsb_first_with_continuation_flag");
  HARNESS_END();
}
void h_fmt_bitseq_gate(void) {
  NONDET(uint16_t, version); NONDET_ARR(uint8_t, bytes, 12); NONDET(int64_t, n);
  ASSUME(n >= 0 && n <= 12);
  char store[12]; for (int i = 0; i < 12; ++i) store[i] = (char)bytes[i];
  struct DecoderBuffer db; db.data_ = store; db.data_size_ = n; db.pos_ = 0; db.bit_mode_ = false; db.bitstream_version_ = version;
  db.bit_decoder_.bit_buffer_ = NULL; db.bit_decoder_.bit_buffer_end_ = NULL; db.bit_decoder_.bit_offset_ = 0;
  uint64_t sz = 0; bool ok = DecoderBuffer_StartBitDecoding(&db, true, &sz);
  if (version < ((2 << 8) | 2)) {
    ASSERT(ok == (n >= 8), "fmt.bitseq.legacy_size_is_fixed_64_bit");
    ASSERT(!ok || (db.pos_ == 8 && sz == LE64(store)), "fmt.bitseq.legacy_size_value");
  } else {
    ASSERT(!ok || (db.pos_ >= 1 && db.pos_ <= 10 && ((uint8_t)store[db.pos_ - 1] & 0x80) == 0), "fmt.bitseq.size_is_varint_from_2_2");
    ASSERT(!(n >= 1 && (bytes[0] & 0x80) == 0) || (ok && db.pos_ == 1 && sz == bytes[0]), "fmt.bitseq.single_byte_varint");
  }
  HARNESS_END();
}
