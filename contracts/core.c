/* Contracts and lemmas for unit 'core' (zig-zag, varint, DecoderBuffer, EncoderBuffer).
 * The function bodies are NOT here: they are sliced from /repo on every run into gen/core.c. */
#include "verif.h"
#include "vec.h"
#include "core_types.h"

/* ------------------------------------------------------------------ specs (pure macros) */
#define ZZ_S2U(UT, v) ((v) >= 0 ? (UT)(((UT)(v)) << 1) : (UT)((((UT)(-((v) + 1))) << 1) | 1))
#define ZZ_U2S(ST, UT, u) ((((u) & 1) == 0) ? (ST)((UT)(u) >> 1) : (ST)(-(ST)((UT)(u) >> 1) - 1))
#define ZZ_S2U32(v) ZZ_S2U(uint32_t, v)
#define ZZ_U2S32(u) ZZ_U2S(int32_t, uint32_t, u)
int ghost_k; /* ghost index: universally quantified by being unconstrained (havocked by GHOSTS() at the start of every harness:
                 file-scope objects are zero-initialised in C, so this must be explicit) */

#define LE16(p) ((uint16_t)((uint16_t)(uint8_t)(p)[0] | ((uint16_t)(uint8_t)(p)[1] << 8)))
#define LE32(p) ((uint32_t)(uint8_t)(p)[0] | ((uint32_t)(uint8_t)(p)[1] << 8) | ((uint32_t)(uint8_t)(p)[2] << 16) | ((uint32_t)(uint8_t)(p)[3] << 24))
#define LE64(p) ((uint64_t)LE32(p) | ((uint64_t)LE32((p) + 4) << 32))

/* Representation invariant of DecoderBuffer as every decoder entry point establishes it
 * (Init(data,size): pos_=0) and every function under contract preserves it. */
#define DB_MAX ((int64_t)1 << 40)
#define DB_INV(b) (0 <= (b)->data_size_ && (b)->data_size_ <= DB_MAX && 0 <= (b)->pos_ && (b)->pos_ <= (b)->data_size_)
#define DB_FRESH(b) (__CPROVER_is_fresh(b, sizeof(struct DecoderBuffer)) && DB_INV(b) && __CPROVER_is_fresh((b)->data_, (b)->data_size_))

/* ------------------------------------------------------------------ zig-zag contracts */
#define ZZ_CONTRACTS(W, ST, UT) \
  UT S2U_i##W(ST val) __CPROVER_ensures(__CPROVER_return_value == ZZ_S2U(UT, val)) __CPROVER_assigns(); \
  ST U2S_u##W(UT val) __CPROVER_ensures(__CPROVER_return_value == ZZ_U2S(ST, UT, val)) __CPROVER_assigns();
ZZ_CONTRACTS(8, int8_t, uint8_t)
ZZ_CONTRACTS(16, int16_t, uint16_t)
ZZ_CONTRACTS(32, int32_t, uint32_t)
ZZ_CONTRACTS(64, int64_t, uint64_t)

void ConvertSignedIntsToSymbols(const int32_t *in, int in_values, uint32_t *out)
__CPROVER_requires(in_values >= 0 && __CPROVER_is_fresh(in, (size_t)in_values * 4) && __CPROVER_is_fresh(out, (size_t)in_values * 4))
__CPROVER_ensures(ghost_k < 0 || ghost_k >= in_values || out[ghost_k] == ZZ_S2U32(in[ghost_k]))
__CPROVER_assigns(__CPROVER_object_whole(out));
void ConvertSymbolsToSignedInts(const uint32_t *in, int in_values, int32_t *out)
__CPROVER_requires(in_values >= 0 && __CPROVER_is_fresh(in, (size_t)in_values * 4) && __CPROVER_is_fresh(out, (size_t)in_values * 4))
__CPROVER_ensures(ghost_k < 0 || ghost_k >= in_values || out[ghost_k] == ZZ_U2S32(in[ghost_k]))
__CPROVER_assigns(__CPROVER_object_whole(out));

/* ------------------------------------------------------------------ DecoderBuffer scalar reads */
#define VAL_u8(p) ((uint8_t)(p)[0])
#define VAL_u16(p) LE16(p)
#define VAL_u32(p) LE32(p)
#define VAL_u64(p) LE64(p)
#define VAL_i8(p) ((int8_t)(uint8_t)(p)[0])
#define VAL_i16(p) ((int16_t)LE16(p))
#define VAL_i32(p) ((int32_t)LE32(p))
#define VAL_i64(p) ((int64_t)LE64(p))
#define DB_SCALAR_CONTRACTS(SFX, T) \
  bool DecoderBuffer_Peek_##SFX(struct DecoderBuffer *self, T *out_val) \
  __CPROVER_requires(DB_FRESH(self) && __CPROVER_is_fresh(out_val, sizeof(T))) \
  __CPROVER_ensures(__CPROVER_return_value == (self->pos_ + (int64_t)sizeof(T) <= self->data_size_)) \
  __CPROVER_ensures(__CPROVER_return_value ==> *out_val == VAL_##SFX(self->data_ + self->pos_)) \
  __CPROVER_ensures(!__CPROVER_return_value ==> *out_val == __CPROVER_old(*out_val)) \
  __CPROVER_assigns(*out_val); \
  bool DecoderBuffer_Decode_##SFX(struct DecoderBuffer *self, T *out_val) \
  __CPROVER_requires(DB_FRESH(self) && __CPROVER_is_fresh(out_val, sizeof(T))) \
  __CPROVER_ensures(__CPROVER_return_value == (__CPROVER_old(self->pos_) + (int64_t)sizeof(T) <= self->data_size_)) \
  __CPROVER_ensures(__CPROVER_return_value ==> (self->pos_ == __CPROVER_old(self->pos_) + (int64_t)sizeof(T) && *out_val == VAL_##SFX(self->data_ + __CPROVER_old(self->pos_)))) \
  __CPROVER_ensures(!__CPROVER_return_value ==> (self->pos_ == __CPROVER_old(self->pos_) && *out_val == __CPROVER_old(*out_val))) \
  __CPROVER_ensures(DB_INV(self)) \
  __CPROVER_assigns(self->pos_, *out_val);
DB_SCALAR_CONTRACTS(u8, uint8_t)
DB_SCALAR_CONTRACTS(u16, uint16_t)
DB_SCALAR_CONTRACTS(u32, uint32_t)
DB_SCALAR_CONTRACTS(u64, uint64_t)
DB_SCALAR_CONTRACTS(i8, int8_t)
DB_SCALAR_CONTRACTS(i16, int16_t)
DB_SCALAR_CONTRACTS(i32, int32_t)
DB_SCALAR_CONTRACTS(i64, int64_t)

/* ------------------------------------------------------------------ varint decoding
 * VARINT_MAXLEN is the ABSOLUTE bound ceil(bits/7) of the format (2,3,5,10), not the code's formula. */
#define VARINT_MAXLEN_8 2
#define VARINT_MAXLEN_16 3
#define VARINT_MAXLEN_32 5
#define VARINT_MAXLEN_64 10
/* Recursive calls are emitted by the slicer as RECURSE(f)(...).  Under -DINDUCTIVE the recursive call goes to a
 * body-less twin f_rec carrying the same contract, so enforcing f's contract is the induction step
 * (the callee is assumed to satisfy the contract for depth+1).  Otherwise RECURSE(f) is f itself. */
#ifdef INDUCTIVE
#define RECURSE(f) f##_rec
#else
#define RECURSE(f) f
#endif
#define DVU_CONTRACT(W, UT) DVU_CONTRACT_(DecodeVarintUnsigned_u##W, W, UT) DVU_CONTRACT_(DecodeVarintUnsigned_u##W##_rec, W, UT)
#define DVU_CONTRACT_(NAME, W, UT) \
  bool NAME(int depth, UT *out_val, struct DecoderBuffer *buffer) \
  __CPROVER_requires(DB_FRESH(buffer) && __CPROVER_is_fresh(out_val, sizeof(UT)) && depth >= 1) \
  __CPROVER_ensures(DB_INV(buffer) && buffer->pos_ >= __CPROVER_old(buffer->pos_)) \
  __CPROVER_ensures(buffer->pos_ - __CPROVER_old(buffer->pos_) <= (depth <= VARINT_MAXLEN_##W ? VARINT_MAXLEN_##W - depth + 1 : 0)) \
  __CPROVER_ensures(__CPROVER_return_value ==> buffer->pos_ > __CPROVER_old(buffer->pos_)) \
  __CPROVER_assigns(buffer->pos_, *out_val);
DVU_CONTRACT(8, uint8_t)
DVU_CONTRACT(16, uint16_t)
DVU_CONTRACT(32, uint32_t)
DVU_CONTRACT(64, uint64_t)
#define DV_CONTRACT(SFX, T, W) \
  bool DecodeVarint_##SFX(T *out_val, struct DecoderBuffer *buffer) \
  __CPROVER_requires(DB_FRESH(buffer) && __CPROVER_is_fresh(out_val, sizeof(T))) \
  __CPROVER_ensures(DB_INV(buffer) && buffer->pos_ >= __CPROVER_old(buffer->pos_)) \
  __CPROVER_ensures(buffer->pos_ - __CPROVER_old(buffer->pos_) <= VARINT_MAXLEN_##W) \
  __CPROVER_ensures(__CPROVER_return_value ==> buffer->pos_ > __CPROVER_old(buffer->pos_)) \
  __CPROVER_assigns(buffer->pos_, *out_val);
DV_CONTRACT(u8, uint8_t, 8)
DV_CONTRACT(u16, uint16_t, 16)
DV_CONTRACT(u32, uint32_t, 32)
DV_CONTRACT(u64, uint64_t, 64)
DV_CONTRACT(i8, int8_t, 8)
DV_CONTRACT(i16, int16_t, 16)
DV_CONTRACT(i32, int32_t, 32)
DV_CONTRACT(i64, int64_t, 64)

/* ------------------------------------------------------------------ BitDecoder
 * ghost_len: length in bytes of the bit buffer (bit_buffer_end_ - bit_buffer_), universally quantified. */
size_t ghost_len;
uint32_t ghost_bit; /* ghost bit index */
#define BD_MAXLEN ((size_t)1 << 40)
#ifdef VERIF_CBMC
int nondet_int(void); size_t nondet_size_t(void); uint32_t nondet_u32(void);
#define GHOSTS() do { ghost_k = nondet_int(); ghost_len = nondet_size_t(); ghost_bit = nondet_u32(); } while (0)
#else
#define GHOSTS() ((void)0)
#endif
#define BD_FRESH(d) (__CPROVER_is_fresh(d, sizeof(struct BitDecoder)) && BD_STATE(d))
#define BD_STATE(d) (ghost_len <= BD_MAXLEN && __CPROVER_is_fresh((d)->bit_buffer_, ghost_len) && (d)->bit_buffer_end_ == (d)->bit_buffer_ + ghost_len && (d)->bit_offset_ <= 8 * ghost_len)
#define BD_MIN(a, b) ((a) < (b) ? (a) : (b))
#define BD_AVAIL(off) ((off) >= 8 * ghost_len ? (size_t)0 : 8 * ghost_len - (off))
/* value of stream bit number k (0 beyond the end) */
#define BD_BIT(d, k) (((k) >> 3) < ghost_len ? (((d)->bit_buffer_[(k) >> 3] >> ((k) & 7)) & 1) : 0)
int BitDecoder_GetBit(struct BitDecoder *self)
__CPROVER_requires(BD_FRESH(self))
__CPROVER_ensures(__CPROVER_return_value == BD_BIT(self, __CPROVER_old(self->bit_offset_)))
__CPROVER_ensures(self->bit_offset_ == __CPROVER_old(self->bit_offset_) + ((__CPROVER_old(self->bit_offset_) >> 3) < ghost_len ? 1 : 0))
__CPROVER_assigns(self->bit_offset_);
int BitDecoder_PeekBit(struct BitDecoder *self, int offset)
__CPROVER_requires(BD_FRESH(self) && offset >= 0 && self->bit_offset_ + (size_t)offset <= 8 * ghost_len)
__CPROVER_ensures(__CPROVER_return_value == BD_BIT(self, self->bit_offset_ + (size_t)offset))
__CPROVER_assigns();
bool BitDecoder_GetBits(struct BitDecoder *self, uint32_t nbits, uint32_t *x)
__CPROVER_requires(BD_FRESH(self) && __CPROVER_is_fresh(x, 4))
__CPROVER_ensures(__CPROVER_return_value == (nbits <= 32))
__CPROVER_ensures(!__CPROVER_return_value ==> (*x == __CPROVER_old(*x) && self->bit_offset_ == __CPROVER_old(self->bit_offset_)))
__CPROVER_ensures((__CPROVER_return_value && ghost_bit < nbits) ==> ((*x >> ghost_bit) & 1) == BD_BIT(self, __CPROVER_old(self->bit_offset_) + ghost_bit))
__CPROVER_ensures((__CPROVER_return_value && ghost_bit >= nbits && ghost_bit < 32) ==> ((*x >> ghost_bit) & 1) == 0)
__CPROVER_ensures(__CPROVER_return_value ==> self->bit_offset_ == __CPROVER_old(self->bit_offset_) + BD_MIN((size_t)nbits, BD_AVAIL(__CPROVER_old(self->bit_offset_))))
__CPROVER_assigns(self->bit_offset_, *x);
uint64_t BitDecoder_AvailBits(const struct BitDecoder *self)
__CPROVER_requires(BD_FRESH(self))
__CPROVER_ensures(__CPROVER_return_value == (uint64_t)(8 * ghost_len) - (uint64_t)self->bit_offset_)
__CPROVER_assigns();
uint64_t BitDecoder_BitsDecoded(const struct BitDecoder *self)
__CPROVER_requires(__CPROVER_is_fresh(self, sizeof(struct BitDecoder)))
__CPROVER_ensures(__CPROVER_return_value == (uint64_t)self->bit_offset_)
__CPROVER_assigns();
void BitDecoder_reset(struct BitDecoder *self, const void *b, size_t s)
__CPROVER_requires(__CPROVER_is_fresh(self, sizeof(struct BitDecoder)) && s <= BD_MAXLEN && __CPROVER_is_fresh(b, s))
__CPROVER_ensures(self->bit_offset_ == 0 && self->bit_buffer_ == (const uint8_t *)b && self->bit_buffer_end_ == (const uint8_t *)b + s)
__CPROVER_assigns(self->bit_offset_, self->bit_buffer_, self->bit_buffer_end_);
uint32_t BitDecoder_EnsureBits(struct BitDecoder *self, int k)
__CPROVER_requires(BD_FRESH(self) && 0 <= k && k <= 24 && (uint64_t)k <= 8 * ghost_len - self->bit_offset_)
__CPROVER_ensures(ghost_bit < (uint32_t)k ==> ((__CPROVER_return_value >> ghost_bit) & 1) == BD_BIT(self, self->bit_offset_ + ghost_bit))
__CPROVER_assigns();

/* ------------------------------------------------------------------ DecoderBuffer byte blocks and bit mode */
bool DecoderBuffer_DecodeBytes(struct DecoderBuffer *self, void *out_data, size_t size_to_decode)
__CPROVER_requires(DB_FRESH(self) && size_to_decode <= ((size_t)1 << 40) && __CPROVER_is_fresh(out_data, size_to_decode))
__CPROVER_ensures(__CPROVER_return_value == (__CPROVER_old(self->pos_) + (int64_t)size_to_decode <= self->data_size_))
__CPROVER_ensures(__CPROVER_return_value ==> self->pos_ == __CPROVER_old(self->pos_) + (int64_t)size_to_decode)
__CPROVER_ensures(!__CPROVER_return_value ==> self->pos_ == __CPROVER_old(self->pos_))
__CPROVER_ensures((__CPROVER_return_value && ghost_len < size_to_decode) ==> ((const char *)out_data)[ghost_len] == self->data_[__CPROVER_old(self->pos_) + (int64_t)ghost_len])
__CPROVER_ensures(DB_INV(self))
__CPROVER_assigns(self->pos_, __CPROVER_object_whole(out_data));
bool DecoderBuffer_PeekBytes(struct DecoderBuffer *self, void *out_data, size_t size_to_peek)
__CPROVER_requires(DB_FRESH(self) && size_to_peek <= ((size_t)1 << 40) && __CPROVER_is_fresh(out_data, size_to_peek))
__CPROVER_ensures(__CPROVER_return_value == (self->pos_ + (int64_t)size_to_peek <= self->data_size_))
__CPROVER_ensures((__CPROVER_return_value && ghost_len < size_to_peek) ==> ((const char *)out_data)[ghost_len] == self->data_[self->pos_ + (int64_t)ghost_len])
__CPROVER_assigns(__CPROVER_object_whole(out_data));
bool DecoderBuffer_StartBitDecoding(struct DecoderBuffer *self, bool decode_size, uint64_t *out_size)
__CPROVER_requires(DB_FRESH(self) && __CPROVER_is_fresh(out_size, 8))
__CPROVER_ensures(DB_INV(self) && self->pos_ >= __CPROVER_old(self->pos_) && self->pos_ - __CPROVER_old(self->pos_) <= (decode_size ? 10 : 0))
__CPROVER_ensures(!decode_size ==> (__CPROVER_return_value && *out_size == __CPROVER_old(*out_size)))
__CPROVER_ensures(__CPROVER_return_value ==> (self->bit_mode_ && self->bit_decoder_.bit_offset_ == 0 && \
    self->bit_decoder_.bit_buffer_ == (const uint8_t *)(self->data_ + self->pos_) && self->bit_decoder_.bit_buffer_end_ == (const uint8_t *)(self->data_ + self->data_size_)))
__CPROVER_ensures(!__CPROVER_return_value ==> self->bit_mode_ == __CPROVER_old(self->bit_mode_))
__CPROVER_assigns(self->pos_, *out_size, self->bit_mode_, self->bit_decoder_);
void DecoderBuffer_EndBitDecoding(struct DecoderBuffer *self)
__CPROVER_requires(DB_FRESH(self) && self->bit_decoder_.bit_offset_ <= 8 * (size_t)(self->data_size_ - self->pos_))
__CPROVER_ensures(!self->bit_mode_ && self->pos_ == __CPROVER_old(self->pos_) + (int64_t)((self->bit_decoder_.bit_offset_ + 7) / 8) && DB_INV(self))
__CPROVER_assigns(self->pos_, self->bit_mode_);
bool DecoderBuffer_DecodeLeastSignificantBits32(struct DecoderBuffer *self, uint32_t nbits, uint32_t *out_value)
__CPROVER_requires(__CPROVER_is_fresh(self, sizeof(struct DecoderBuffer)) && BD_STATE(&self->bit_decoder_) && __CPROVER_is_fresh(out_value, 4))
__CPROVER_ensures(__CPROVER_return_value == (self->bit_mode_ && nbits <= 32))
__CPROVER_ensures(!__CPROVER_return_value ==> (*out_value == __CPROVER_old(*out_value) && self->bit_decoder_.bit_offset_ == __CPROVER_old(self->bit_decoder_.bit_offset_)))
__CPROVER_ensures((__CPROVER_return_value && ghost_bit < nbits) ==> ((*out_value >> ghost_bit) & 1) == BD_BIT(&self->bit_decoder_, __CPROVER_old(self->bit_decoder_.bit_offset_) + ghost_bit))
__CPROVER_ensures((__CPROVER_return_value && ghost_bit >= nbits && ghost_bit < 32) ==> ((*out_value >> ghost_bit) & 1) == 0)
__CPROVER_assigns(self->bit_decoder_.bit_offset_, *out_value);

/* ------------------------------------------------------------------ EncoderBuffer (byte mode) over the vector model */
#define EB_CAPMAX 64
#define EB_FRESH(e) (__CPROVER_is_fresh(e, sizeof(struct EncoderBuffer)) && (e)->buffer_.cap <= EB_CAPMAX && (e)->buffer_.size <= (e)->buffer_.cap && \
                     __CPROVER_is_fresh((e)->buffer_.data, (e)->buffer_.cap))
#define EB_SCALAR_CONTRACT(SFX, T) \
  bool EncoderBuffer_Encode_##SFX(struct EncoderBuffer *self, const T *data) \
  __CPROVER_requires(EB_FRESH(self) && self->buffer_.size + sizeof(T) <= self->buffer_.cap && __CPROVER_is_fresh(data, sizeof(T)) && ghost_len < self->buffer_.cap) \
  __CPROVER_ensures(__CPROVER_return_value == !(self->bit_encoder_reserved_bytes_ > 0)) \
  __CPROVER_ensures(__CPROVER_return_value ==> (self->buffer_.size == __CPROVER_old(self->buffer_.size) + sizeof(T) && VAL_##SFX(self->buffer_.data + __CPROVER_old(self->buffer_.size)) == *data)) \
  __CPROVER_ensures(!__CPROVER_return_value ==> self->buffer_.size == __CPROVER_old(self->buffer_.size)) \
  __CPROVER_ensures(ghost_len >= __CPROVER_old(self->buffer_.size) || self->buffer_.data[ghost_len] == __CPROVER_old(self->buffer_.data[ghost_len])) \
  __CPROVER_assigns(self->buffer_.size, __CPROVER_object_whole(self->buffer_.data));
EB_SCALAR_CONTRACT(u8, uint8_t)
EB_SCALAR_CONTRACT(u16, uint16_t)
EB_SCALAR_CONTRACT(u32, uint32_t)
EB_SCALAR_CONTRACT(u64, uint64_t)
EB_SCALAR_CONTRACT(i8, int8_t)
EB_SCALAR_CONTRACT(i16, int16_t)
EB_SCALAR_CONTRACT(i32, int32_t)
EB_SCALAR_CONTRACT(i64, int64_t)

#include "core_helpers.h"
#ifdef VERIF_CBMC
#include "core_slice.c" /* generated slice */
#endif

/* ------------------------------------------------------------------ harnesses */
#define H_ENF_ZZ(W, ST, UT) \
  void h_enf_S2U_i##W(void) { NONDET(ST, v); UT r = S2U_i##W(v); ASSERT(r == ZZ_S2U(UT, v), "zigzag.spec.S2U_i" #W); HARNESS_END(); } \
  void h_enf_U2S_u##W(void) { NONDET(UT, u); ST r = U2S_u##W(u); ASSERT(r == ZZ_U2S(ST, UT, u), "zigzag.spec.U2S_u" #W); HARNESS_END(); } \
  void h_zz_inv1_##W(void) { NONDET(ST, v); UT u = S2U_i##W(v); ST w = U2S_u##W(u); ASSERT(w == v, "zigzag.inv1." #W); HARNESS_END(); } \
  void h_zz_inv2_##W(void) { NONDET(UT, u); ST v = U2S_u##W(u); UT w = S2U_i##W(v); ASSERT(w == u, "zigzag.inv2." #W); HARNESS_END(); }
H_ENF_ZZ(8, int8_t, uint8_t)
H_ENF_ZZ(16, int16_t, uint16_t)
H_ENF_ZZ(32, int32_t, uint32_t)
H_ENF_ZZ(64, int64_t, uint64_t)

#ifdef VERIF_CBMC
void h_enf_ConvertSignedIntsToSymbols(void) { GHOSTS(); const int32_t *in; int n; uint32_t *out; ConvertSignedIntsToSymbols(in, n, out); HARNESS_END(); }
void h_enf_ConvertSymbolsToSignedInts(void) { GHOSTS(); const uint32_t *in; int n; int32_t *out; ConvertSymbolsToSignedInts(in, n, out); HARNESS_END(); }
#define H_ENF_DB(SFX, T) \
  void h_enf_DecoderBuffer_Peek_##SFX(void) { GHOSTS(); struct DecoderBuffer *b; T *o; DecoderBuffer_Peek_##SFX(b, o); HARNESS_END(); } \
  void h_enf_DecoderBuffer_Decode_##SFX(void) { GHOSTS(); struct DecoderBuffer *b; T *o; DecoderBuffer_Decode_##SFX(b, o); HARNESS_END(); }
H_ENF_DB(u8, uint8_t)
H_ENF_DB(u16, uint16_t)
H_ENF_DB(u32, uint32_t)
H_ENF_DB(u64, uint64_t)
H_ENF_DB(i8, int8_t)
H_ENF_DB(i16, int16_t)
H_ENF_DB(i32, int32_t)
H_ENF_DB(i64, int64_t)
#endif

/* ------------------------------------------------------------------ varint harnesses */
#ifdef VERIF_CBMC
#define H_ENF_DV(SFX, T) void h_enf_DecodeVarint_##SFX(void) { GHOSTS(); T *o; struct DecoderBuffer *b; DecodeVarint_##SFX(o, b); HARNESS_END(); }
#define H_ENF_DVU(W, UT) void h_enf_DecodeVarintUnsigned_u##W(void) { GHOSTS(); int d; UT *o; struct DecoderBuffer *b; DecodeVarintUnsigned_u##W(d, o, b); HARNESS_END(); }
H_ENF_DVU(8, uint8_t) H_ENF_DVU(16, uint16_t) H_ENF_DVU(32, uint32_t) H_ENF_DVU(64, uint64_t)
H_ENF_DV(u8, uint8_t) H_ENF_DV(u16, uint16_t) H_ENF_DV(u32, uint32_t) H_ENF_DV(u64, uint64_t)
H_ENF_DV(i8, int8_t) H_ENF_DV(i16, int16_t) H_ENF_DV(i32, int32_t) H_ENF_DV(i64, int64_t)
#endif

/* Round trip: encode x with the real encoder into a 16-byte vector model, append `trail` arbitrary
 * bytes, decode with the real decoder.  All bodies inlined; recursion unwound to its width bound. */
#define VR_CAP 16
#define H_VARINT_RT(SFX, T, W) \
  void h_varint_rt_##SFX(void) { \
    NONDET(T, x); NONDET_ARR(uint8_t, trail, VR_CAP); \
    char store[VR_CAP]; for (int i = 0; i < VR_CAP; ++i) store[i] = (char)trail[i]; \
    struct EncoderBuffer eb; eb.buffer_.data = store; eb.buffer_.size = 0; eb.buffer_.cap = VR_CAP; \
    eb.bit_encoder_ = NULL; eb.bit_encoder_reserved_bytes_ = 0; eb.encode_bit_sequence_size_ = false; \
    bool eok = EncodeVarint_##SFX(x, &eb); \
    ASSERT(eok, "varint.rt." #SFX ".encode_ok"); \
    size_t produced = eb.buffer_.size; \
    ASSERT(produced >= 1 && produced <= VARINT_MAXLEN_##W, "varint.rt." #SFX ".length"); \
    struct DecoderBuffer db; db.data_ = store; db.data_size_ = VR_CAP; db.pos_ = 0; db.bit_mode_ = false; db.bitstream_version_ = 0; \
    db.bit_decoder_.bit_buffer_ = NULL; db.bit_decoder_.bit_buffer_end_ = NULL; db.bit_decoder_.bit_offset_ = 0; \
    T y = 0; bool dok = DecodeVarint_##SFX(&y, &db); \
    ASSERT(dok, "varint.rt." #SFX ".decode_ok"); \
    ASSERT(y == x, "varint.rt." #SFX ".value"); \
    ASSERT((size_t)db.pos_ == produced, "varint.rt." #SFX ".consumed_eq_produced"); \
    /* exact-length buffer: decoding still succeeds when the stream ends right after the varint */ \
    struct DecoderBuffer db2 = db; db2.pos_ = 0; db2.data_size_ = (int64_t)produced; T z = 0; \
    ASSERT(DecodeVarint_##SFX(&z, &db2) && z == x, "varint.rt." #SFX ".exact_length"); \
    /* truncated buffer: fails, never reads past the end (bounds obligations) */ \
    struct DecoderBuffer db3 = db; db3.pos_ = 0; db3.data_size_ = (int64_t)produced - 1; T w = 0; \
    ASSERT(!DecodeVarint_##SFX(&w, &db3), "varint.rt." #SFX ".truncated_fails"); \
    HARNESS_END(); }
H_VARINT_RT(u8, uint8_t, 8) H_VARINT_RT(u16, uint16_t, 16) H_VARINT_RT(u32, uint32_t, 32) H_VARINT_RT(u64, uint64_t, 64)
H_VARINT_RT(i8, int8_t, 8) H_VARINT_RT(i16, int16_t, 16) H_VARINT_RT(i32, int32_t, 32) H_VARINT_RT(i64, int64_t, 64)

/* ------------------------------------------------------------------ bit-level harnesses */
#ifdef VERIF_CBMC
void h_enf_BitDecoder_GetBit(void) { GHOSTS(); struct BitDecoder *d; BitDecoder_GetBit(d); HARNESS_END(); }
void h_enf_BitDecoder_PeekBit(void) { GHOSTS(); struct BitDecoder *d; int o; BitDecoder_PeekBit(d, o); HARNESS_END(); }
void h_enf_BitDecoder_GetBits(void) { GHOSTS(); struct BitDecoder *d; uint32_t n; uint32_t *x; BitDecoder_GetBits(d, n, x); HARNESS_END(); }
void h_enf_BitDecoder_AvailBits(void) { GHOSTS(); struct BitDecoder *d; BitDecoder_AvailBits(d); HARNESS_END(); }
void h_enf_BitDecoder_BitsDecoded(void) { GHOSTS(); struct BitDecoder *d; BitDecoder_BitsDecoded(d); HARNESS_END(); }
void h_enf_BitDecoder_reset(void) { GHOSTS(); struct BitDecoder *d; const void *b; size_t s; BitDecoder_reset(d, b, s); HARNESS_END(); }
void h_enf_BitDecoder_EnsureBits(void) { GHOSTS(); struct BitDecoder *d; int k; BitDecoder_EnsureBits(d, k); HARNESS_END(); }
#endif

#ifdef VERIF_CBMC
/* negative control: the ghost variables really are unconstrained (this assertion MUST fail) */
void h_ghost_control(void) { GHOSTS(); __CPROVER_assert(ghost_k == 0 && ghost_len == 0 && ghost_bit == 0, "control.ghosts_are_zero"); }
#endif

#ifdef VERIF_CBMC
void h_enf_DecoderBuffer_DecodeBytes(void) { GHOSTS(); struct DecoderBuffer *b; void *o; size_t n; DecoderBuffer_DecodeBytes(b, o, n); HARNESS_END(); }
void h_enf_DecoderBuffer_PeekBytes(void) { GHOSTS(); struct DecoderBuffer *b; void *o; size_t n; DecoderBuffer_PeekBytes(b, o, n); HARNESS_END(); }
void h_enf_DecoderBuffer_StartBitDecoding(void) { GHOSTS(); struct DecoderBuffer *b; bool ds; uint64_t *o; DecoderBuffer_StartBitDecoding(b, ds, o); HARNESS_END(); }
void h_enf_DecoderBuffer_EndBitDecoding(void) { GHOSTS(); struct DecoderBuffer *b; DecoderBuffer_EndBitDecoding(b); HARNESS_END(); }
void h_enf_DecoderBuffer_DecodeLeastSignificantBits32(void) { GHOSTS(); struct DecoderBuffer *b; uint32_t n; uint32_t *o; DecoderBuffer_DecodeLeastSignificantBits32(b, n, o); HARNESS_END(); }
#endif

/* bits.rt: PutBits(value, nbits) at bit offset o, then GetBits(nbits) at the same offset returns value & mask(nbits);
 * every bit of the 12-byte window outside [o, o+nbits) is unchanged (frame).  Bodies inlined, loops <= 32. */
void h_bits_rt(void) {
  NONDET(uint32_t, value); NONDET(int32_t, nbits); NONDET(uint32_t, o); NONDET_ARR(uint8_t, init, 12); NONDET(uint32_t, g);
  ASSUME(nbits >= 0 && nbits <= 32 && o < 64 && g < 96);
  char store[12]; for (int i = 0; i < 12; ++i) store[i] = (char)init[i];
  struct BitEncoder e; e.bit_buffer_ = store; e.bit_offset_ = o;
  BitEncoder_PutBits(&e, value, nbits);
  ASSERT(e.bit_offset_ == (size_t)o + (size_t)nbits, "bits.rt.encoder_offset");
  int before = (init[g >> 3] >> (g & 7)) & 1, after = (((uint8_t)store[g >> 3]) >> (g & 7)) & 1;
  ASSERT((g >= o && g < o + (uint32_t)nbits) || before == after, "bits.rt.frame");
  struct BitDecoder d; d.bit_buffer_ = (const uint8_t *)store; d.bit_buffer_end_ = (const uint8_t *)store + 12; d.bit_offset_ = o;
  uint32_t out = 0xdeadbeef; bool ok = BitDecoder_GetBits(&d, (uint32_t)nbits, &out);
  uint32_t mask = nbits == 32 ? 0xffffffffu : ((1u << nbits) - 1u);
  ASSERT(ok && out == (value & mask), "bits.rt.value");
  ASSERT(d.bit_offset_ == e.bit_offset_, "bits.rt.decoder_offset");
  HARNESS_END();
}

#ifdef VERIF_CBMC
#define H_ENF_EB(SFX, T) void h_enf_EncoderBuffer_Encode_##SFX(void) { GHOSTS(); struct EncoderBuffer *e; const T *d; EncoderBuffer_Encode_##SFX(e, d); HARNESS_END(); }
H_ENF_EB(u8, uint8_t) H_ENF_EB(u16, uint16_t) H_ENF_EB(u32, uint32_t) H_ENF_EB(u64, uint64_t) H_ENF_EB(i8, int8_t) H_ENF_EB(i16, int16_t) H_ENF_EB(i32, int32_t) H_ENF_EB(i64, int64_t)
#endif

/* bitseq.rt (BOUNDED stand-in: prefix <= 4 bytes, <= 64 payload bits, two writes): a bit sequence written between
 * StartBitEncoding/EndBitEncoding (with or without stored size) is found by StartBitDecoding, reads back exactly, the
 * stored size is the payload byte count, and EndBitDecoding leaves the reader at the end of what the writer produced. */
#ifndef BITSEQ_PREFIX
#define BITSEQ_PREFIX 3
#endif
#ifndef BITSEQ_N2MAX
#define BITSEQ_N2MAX 32
#endif
void h_bitseq_rt(void) {
  NONDET(uint32_t, prefix); NONDET(int64_t, required_bits); NONDET(bool, with_size); NONDET(uint32_t, v1); NONDET(uint32_t, v2); NONDET(int32_t, n1); NONDET(int32_t, n2);
  NONDET_ARR(uint8_t, junk, 40); NONDET(uint16_t, version);
  ASSUME(prefix == BITSEQ_PREFIX && required_bits >= 1 && required_bits <= 64 && n1 >= 0 && n1 <= 32 && n2 >= 0 && n2 <= BITSEQ_N2MAX && n1 + n2 <= required_bits);
  ASSUME(version == DRACO_BITSTREAM_VERSION(2, 2) || version == DRACO_BITSTREAM_VERSION(2, 3));
  char store[40]; for (int i = 0; i < 40; ++i) store[i] = (char)junk[i];
  struct EncoderBuffer eb; eb.buffer_.data = store; eb.buffer_.size = prefix; eb.buffer_.cap = 40; eb.bit_encoder_ = NULL; eb.bit_encoder_reserved_bytes_ = 0; eb.encode_bit_sequence_size_ = false;
  ASSERT(EncoderBuffer_StartBitEncoding(&eb, required_bits, with_size), "bitseq.rt.start_ok");
  uint8_t probe = 7; ASSERT(!EncoderBuffer_Encode_u8(&eb, &probe), "bitseq.rt.byte_write_refused_in_bit_mode");
  ASSERT(EncoderBuffer_EncodeLeastSignificantBits32(&eb, n1, v1) && EncoderBuffer_EncodeLeastSignificantBits32(&eb, n2, v2), "bitseq.rt.put_ok");
  EncoderBuffer_EndBitEncoding(&eb);
  size_t payload = ((size_t)(n1 + n2) + 7) / 8;
  ASSERT(eb.buffer_.size == prefix + (with_size ? 1 : 0) + payload, "bitseq.rt.produced_length");
  ASSERT(!EncoderBuffer_bit_encoder_active(&eb), "bitseq.rt.back_in_byte_mode");
  for (int i = 0; i < 4; ++i) ASSERT((uint32_t)i >= prefix || (uint8_t)store[i] == junk[i], "bitseq.rt.prefix_untouched");
  struct DecoderBuffer db; db.data_ = store; db.data_size_ = (int64_t)eb.buffer_.size; db.pos_ = prefix; db.bit_mode_ = false; db.bitstream_version_ = version;
  db.bit_decoder_.bit_buffer_ = NULL; db.bit_decoder_.bit_buffer_end_ = NULL; db.bit_decoder_.bit_offset_ = 0;
  uint64_t sz = 12345; ASSERT(DecoderBuffer_StartBitDecoding(&db, with_size, &sz), "bitseq.rt.start_decoding_ok");
  ASSERT(!with_size || sz == payload, "bitseq.rt.stored_size");
  uint32_t o1 = 1, o2 = 2;
  ASSERT(DecoderBuffer_DecodeLeastSignificantBits32(&db, (uint32_t)n1, &o1) && DecoderBuffer_DecodeLeastSignificantBits32(&db, (uint32_t)n2, &o2), "bitseq.rt.get_ok");
  ASSERT(o1 == (n1 == 32 ? v1 : (v1 & ((1u << n1) - 1))) && o2 == (n2 == 32 ? v2 : (v2 & ((1u << n2) - 1))), "bitseq.rt.values");
  DecoderBuffer_EndBitDecoding(&db);
  ASSERT(db.pos_ == (int64_t)eb.buffer_.size, "bitseq.rt.consumed_eq_produced");
  HARNESS_END();
}
