/* Common prelude for contract files.  Two modes:
 *   -DVERIF_CBMC : compiled by goto-cc; contracts are live; NONDET inputs are unconstrained.
 *   otherwise    : native replay/co-simulation build (gcc/g++): contract clauses vanish, the sliced
 *                  functions are NOT included (the real C++ code is linked through native shims),
 *                  NONDET inputs are read from "name=value" command line arguments, ASSERT evaluates
 *                  the same postcondition text against the real code.
 */
#ifndef VERIF_H
#define VERIF_H
#include <stdint.h>
#include <stdbool.h>
#include <stddef.h>
#include <string.h>
#include <limits.h>
#include <float.h>

#ifdef VERIF_CBMC
#define NONDET(T, name) T name
#define NONDET_ARR(T, name, n) T name[n]
#define ASSUME(c) __CPROVER_assume(c)
#define ASSERT(c, msg) __CPROVER_assert(c, msg)
#ifdef VACUITY
#define HARNESS_END() __CPROVER_assert(0, "vacuity")
#else
#define HARNESS_END() ((void)0)
#endif
#else /* native */
#include <stdio.h>
#include <stdlib.h>
#define __CPROVER_requires(...)
#define __CPROVER_ensures(...)
#define __CPROVER_assigns(...)
#define __CPROVER_frees(...)
#define __CPROVER_loop_invariant(...)
#define __CPROVER_decreases(...)
#define __CPROVER_assert(c, m) ((void)0)
#define __CPROVER_assume(c) ((void)0)
#ifdef __cplusplus
extern "C" {
#endif
extern int replay_argc; extern char **replay_argv; extern int replay_failed;
static inline int64_t replay_get(const char *name, int idx) {
  char key[128];
  if (idx >= 0) snprintf(key, sizeof key, "%s[%d]=", name, idx); else snprintf(key, sizeof key, "%s=", name);
  size_t kl = strlen(key);
  for (int i = 1; i < replay_argc; ++i)
    if (!strncmp(replay_argv[i], key, kl)) {
      const char *v = replay_argv[i] + kl;
      if (v[0] == 'b') { uint64_t x = 0; for (const char *p = v + 1; *p; ++p) x = (x << 1) | (uint64_t)(*p == '1'); return (int64_t)x; }
      return (int64_t)strtoull(v, NULL, 0);
    }
  return 0;
}
#define NONDET(T, name) T name; { int64_t _v = replay_get(#name, -1); memcpy(&name, &_v, sizeof(name)); }
#define NONDET_ARR(T, name, n) T name[n]; for (int _i = 0; _i < (int)(n); ++_i) { int64_t _v = replay_get(#name, _i); memcpy(&name[_i], &_v, sizeof(name[0])); }
#define ASSUME(c) do { if (!(c)) { printf("REPLAY-ASSUME-FALSE %s\n", #c); exit(3); } } while (0)
#define ASSERT(c, msg) do { if (!(c)) { printf("REPLAY-FAIL %s\n", msg); replay_failed = 1; } else printf("REPLAY-OK %s\n", msg); } while (0)
#define HARNESS_END() ((void)0)
#ifdef __cplusplus
}
#endif
#endif

/* prophecy-ghost assumption inserted by listed slicer rewrites (see contracts/ans.c); nothing natively */
#ifdef VERIF_CBMC
#define PROPHECY(c) __CPROVER_assume(c)
#else
#define PROPHECY(c) ((void)0)
#endif
#define U8MAX 255u
/* slicer rule R-std: type-generic stand-ins for overloaded std:: helpers */
#include <math.h>
#include <stdlib.h>
#define STD_ABS(x) _Generic((x), float: fabsf, double: fabs, long double: fabsl, int: abs, long: labs, long long: llabs, short: abs, signed char: abs)(x)
#define STD_MIN(a, b) ((b) < (a) ? (b) : (a))
#define STD_MAX(a, b) ((a) < (b) ? (b) : (a))
#define STD_FILL_N(first, n, v) do { for (size_t std_fill_i = 0; std_fill_i < (size_t)(n); ++std_fill_i) (first)[std_fill_i] = (v); } while (0)
#define STD_FILL(first, last, v) do { for (__typeof__(first) std_fill_p = (first); std_fill_p != (last); ++std_fill_p) *std_fill_p = (v); } while (0)
#define STD_SWAP(a, b) do { __typeof__(a) std_swap_tmp = (a); (a) = (b); (b) = std_swap_tmp; } while (0)
#endif
