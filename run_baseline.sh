#!/bin/bash
# Builds /repo with the verification guard OFF (there are no guarded hooks; see MANIFEST.hooks) and runs the
# repository's test binaries. Exit 0 iff every test outside the two always-failing ones (emptied test data) passes.
set -e
cd /repo
[ -f _build/build.ninja ] || cmake -G Ninja -B _build -DCMAKE_BUILD_TYPE=RelWithDebInfo -DCMAKE_CXX_FLAGS=-Wno-error -DDRACO_TESTS=ON >/dev/null
cmake --build _build -j16 >/dev/null
cd _build
out=$(./draco_tests 2>&1 || true)
echo "$out" | tail -8
bad=$(echo "$out" | grep -E "^\[  FAILED  \] [A-Za-z]" | grep -v -E "ObjDecoderTest.TestObjDecodingAll|ObjEncoderTest.TestObjEncodingAll" | sort -u | wc -l)
./draco_factory_tests 2>&1 | tail -2
[ "$bad" = "0" ] || { echo "unexpected failures: $bad"; exit 1; }
echo "$out" | grep -q "PASSED  \] 183 tests" || { echo "expected 183 passing tests in draco_tests"; exit 1; }
exit 0
