#!/usr/bin/env python3
"""Single entry point of the verification machinery (DESIGN.md §3).

  check.py <Cxx> [--tier quick|thorough]   run every job registered for the property, write evidence/<Cxx>.json
  check.py job <unit> <job-id-regex> [-v]  developer: run selected jobs of one unit
  check.py slice <unit>                    developer: regenerate and print slice paths
  check.py replay <file>                   re-run the native replay recorded in a replay file

exit 0: all obligations discharged, vacuity probes fired, co-simulation agreed
exit 1: VIOLATION line(s) printed (an obligation failed)
exit 2: inconclusive (timeout, slicer misfire, front-end rejection, co-simulation disagreement): never a violation
"""
import sys, os, json, re, time, importlib, hashlib, shutil, subprocess
from concurrent.futures import ThreadPoolExecutor

VERIF = os.path.dirname(os.path.abspath(__file__))
sys.path.insert(0, VERIF)
from engine import slicer, pipeline

REPO = os.environ.get('VERIF_REPO', '/repo')
BUILD = os.path.join(VERIF, 'build')
UNITS = ['core', 'pred', 'ans', 'seqmesh', 'meta', 'bitcoders', 'bitcoders2', 'symbols', 'quant', 'guards']
NCPU = int(os.environ.get('VERIF_JOBS', '16'))

def load_unit(name):
    return importlib.import_module('units.' + name)

def gen_unit(name, gendir, _top=True):
    mod = load_unit(name)
    for dep in getattr(mod, 'DEPS', []): gen_unit(dep, gendir, False)
    t, f, recs = slicer.generate(REPO, mod.UNIT)
    t = re.sub(r'\n[ \t]+\n', '\n\n', t); f = re.sub(r'(\n[ \t]*){3,}', '\n\n', f)
    os.makedirs(gendir, exist_ok=True)
    open(os.path.join(gendir, name + '_types.h'), 'w').write(t)
    open(os.path.join(gendir, name + '_slice.c'), 'w').write(f)
    open(os.path.join(gendir, name + '_protos.h'), 'w').write(''.join(fn['sig'] + ';\n' for fn in mod.UNIT['functions']))
    return mod, recs

def select_jobs(mod, prop=None, tier='quick', rx=None):
    out = []
    for j in mod.JOBS:
        if prop and prop not in j.get('props', []): continue
        if tier == 'quick' and j.get('tier') == 'thorough': continue
        if rx and not re.search(rx, j['id']): continue
        out.append(j)
    return out

def run_jobs(jobs, gendir, workroot, with_vacuity=True):
    tasks = []
    for j in jobs:
        tasks.append((j, False))
        if with_vacuity and not j.get('no_vacuity'): tasks.append((j, True))
    results = []
    with ThreadPoolExecutor(max_workers=NCPU) as ex:
        futs = [ex.submit(pipeline.run_job, j, gendir, workroot, vac) for j, vac in tasks]
        for f in futs: results.append(f.result())
    return results

def main():
    a = sys.argv[1:]
    if not a: print(__doc__); return 2
    if a[0] == 'freeze-loops':
        # developer: record the header text of every loop that carries a loop contract (spec/loop_headers.json), from the current tree
        out = {}
        if os.path.exists(os.path.join(VERIF, 'spec', 'loop_headers.json')): os.remove(os.path.join(VERIF, 'spec', 'loop_headers.json'))
        for u in UNITS + [x[:-3] for x in sorted(os.listdir(os.path.join(VERIF, 'units'))) if x.endswith('.py') and not x.startswith('_') and x[:-3] not in UNITS]:
            mod = load_unit(u)
            slicer.generate(REPO, mod.UNIT)
            for f in mod.UNIT['functions']:
                if f.get('loops'): out[f['name']] = {str(k): f['_heads'][k] for k in range(len(f['_heads']))}
        json.dump(out, open(os.path.join(VERIF, 'spec', 'loop_headers.json'), 'w'), indent=1, sort_keys=True); print('frozen', len(out), 'functions'); return 0
    if a[0] == 'slice':
        gendir = os.path.join(BUILD, 'gen'); mod, recs = gen_unit(a[1], gendir)
        print(gendir, len(recs), 'functions'); return 0
    if a[0] == 'job':
        unit, rx = a[1], a[2]; verbose = '-v' in a
        gendir = os.path.join(BUILD, 'gen')
        try:
            mod, recs = gen_unit(unit, gendir)
        except slicer.SliceError as e:
            print('SLICE ERROR', e); return 2
        jobs = select_jobs(mod, None, 'thorough', rx)
        t0 = time.time()
        res = run_jobs(jobs, gendir, os.path.join(BUILD, 'work'), with_vacuity='--novac' not in a)
        rc = 0
        for r in res:
            nob = len(r['obligations'])
            print('%-60s %-12s %4d obl %6.1fs %s' % (r['id'], r['status'], nob, r.get('seconds', 0), r['reason'][:300]))
            if r['status'] == 'fail' and not r['vacuity']:
                rc = 1
                for o in r['failed'][:10]: print('     FAILED', o['name'], '|', o['desc'], '|', o['loc'], '|', json.dumps(o.get('trace', {}))[:600] if verbose else '')
            elif r['status'] != 'ok': rc = max(rc, 2)
            if verbose and r['status'] == 'inconclusive': print(json.dumps(r['log'], indent=1))
        print('total %.1fs' % (time.time() - t0))
        return rc
    if a[0] == 'replay':
        from engine import native
        rec = json.load(open(a[1]))
        unit = rec['job'].split('.')[0]
        gendir = os.path.join(BUILD, 'replay', 'gen')
        mod, recs = gen_unit(unit, gendir)
        job = next(j for j in mod.JOBS if j['id'] == rec['job'])
        print('obligation:', rec['obligation'], '|', rec['description'], '| job', rec['job'])
        if not job.get('native') and job.get('native_api'):
            r = native.replay_api(job, os.path.join(BUILD, 'replay'), REPO)
            print(r.get('cmd')); print(r.get('output')); print('status:', r['status'])
            return 1 if r['status'] == 'reproduced' else 0
        if not job.get('native'):
            print('no native adapter for this harness; verifier inputs:', json.dumps(rec.get('inputs'))[:2000]); return 2
        r = native.replay(job, {'trace': rec.get('inputs'), 'desc': rec['description']}, gendir, os.path.join(BUILD, 'replay'), REPO)
        print(r.get('cmd')); print(r.get('output')); print('status:', r['status'])
        return 1 if r['status'] == 'reproduced' else 0
    from engine import propcheck
    return propcheck.main(a)

if __name__ == '__main__':
    try:
        rc = main()
    except SystemExit:
        raise
    except BaseException as e:   # an internal error of the machinery is never a verdict about draco: exit 2, never 1
        import traceback; traceback.print_exc()
        print('INCONCLUSIVE: internal error of the checking machinery: %s: %s' % (type(e).__name__, str(e)[:300]))
        rc = 2
    sys.exit(rc)
